"""C12 - bulk INSERT with RETURNING ("insertmanyvalues"): one returned row per parameter set, in
parameter order."""
import re

ID = "C12"
LEVEL = "proof"
PROPS = "props/C12.v"
RUNNER = ("SAV.sql.IMVRun", "run_case")
STATIC_MODULES = ["SAV.sql.IMVRun"]
ANCHORS = [
    ("lib/sqlalchemy/sql/compiler.py", "SQLCompiler._deliver_insertmanyvalues_batches"),
    ("lib/sqlalchemy/engine/default.py", "DefaultDialect._deliver_insertmanyvalues_batches"),
    ("lib/sqlalchemy/engine/default.py", "DefaultExecutionContext.fetchall_for_returning"),
    ("lib/sqlalchemy/engine/base.py", "Connection._exec_insertmany_context"),
    ("lib/sqlalchemy/sql/compiler.py", "_InsertManyValues"),
    ("lib/sqlalchemy/sql/compiler.py", "_InsertManyValuesBatch"),
    # where has_upsert_bound_parameters comes from, and the ORM bulk insert that runs one executemany
    # per key set and splices the results
    ("lib/sqlalchemy/sql/compiler.py", "SQLCompiler.visit_bindparam"),
    ("lib/sqlalchemy/dialects/sqlite/base.py", "SQLiteCompiler.visit_on_conflict_do_update"),
    ("lib/sqlalchemy/orm/persistence.py", "_emit_insert_statements"),
]

# ------------------------------------------------------------------------------------------------
# case format (a tree):   [cfg, mask, sent_pos, rowspec, tuples, keys, fault, setup, post]
#                   or:   [100, sbo, keysets, names, orm_setup]      (ORM bulk insert, see _impl_orm)
# cfg = everything the two anchored functions read from the compiled statement, the dialect and the
# execution options.  The implementation side builds a real table + statement (from `setup`) and
# ECHOES what it finds in the real objects, so a wrong generator table shows up as a disagreement.
CFG_FIELDS = [
    "is_default_expr", "supports_default_metavalue", "supports_multivalues_insert", "result_columns",
    "sentinel_columns_none", "includes_upsert_behaviors", "embed_values_counter",
    "has_upsert_bound_parameters", "page_size", "max_params", "total_params", "params_per_batch",
    "is_returning", "imv_sbo", "num_sentinel", "implicit", "has_keys", "named", "num_ins", "numeric",
    "values_binds",
]
# mask     : per position of positiontup (positional) / per key (named): 1 = rendered inside VALUES
# sent_pos : positions of the sentinel values inside a parameter tuple ([] = none)
# rowspec  : the RETURNING row the database produces for a parameter set, column by column:
#            [0] autoincrement id (= global index + 1 on a fresh table) ; [1, j] tuple[j] ;
#            [2, j] tuple[j] + first non-VALUES parameter of the *statement* ; [3] NULL (-1) ;
#            [4] the first non-VALUES parameter of the statement (upsert: SET d = :newd)
# tuples   : the DBAPI parameter sets as canonical ints, in positiontup / key order
# keys     : one int per parameter set; the database returns the rows of each statement stably
#            sorted by it (so: any permutation per batch)
# fault    : [] | [kind, idx, val]   1 drop the row of parameter set idx ; 2 replace its last column
#            by val ; 3 return it twice
# post     : [] | [1] = report the (key, value) pairs the table holds afterwards (upserts over existing rows)
# setup    : [style, dopt, pstyle, upsert, extra, wo_returning, default_only, d_first, return_defaults, conflict]
#            upsert: 0 none | 1 SET d = excluded.d | 2 SET d = :newd | 3 same, d has a TypeDecorator with
#            bind_expression | 4 SET d = excluded.d + :sfx ; conflict: every key exists before the call
#            (ignored by the model).  return_defaults: the statement uses .return_defaults(sort_by_parameter_order=..)
#            and `rows` are result.inserted_primary_key_rows, each joined with the d value the table holds for that key
#
# observation:  [cfg echo, mask echo, batches, status, rows, inserted, table]
#   batch   = [current_batch_size, batchnum, total_batches, rows_sorted, is_downgraded,
#              params, groups, numbers, counters]
#             params  : replaced_parameters (named: [key index, i | -1, value] sorted by (i, key))
#             groups  : number of "(..)" groups after VALUES (-1: statement not rewritten)
#             numbers : numeric paramstyle, the placeholder numbers inside VALUES ; counters: the
#                       values substituted for _IMV_VALUES_COUNTER
#   status  = 0 ok | 1 ZeroDivisionError | 2 IndexError | 3 AssertionError | 4 rowcount guard |
#             5 KeyError guard | 6 never completes (negative size) | 9 any other exception
#   rows    = the final result rows (sentinel columns trimmed)
#   inserted= global indices of the parameter sets found in the table afterwards, insertion order

STYLES = ["autoinc", "sentinel", "uuid", "composite", "none", "clientpk", "omitpk", "csentinel", "multibind"]
PSTYLES = ["qmark", "named", "numeric", "numeric_dollar"]
NULL = -1

RULE = (
    "row counts 0..40 x page sizes {1,2,3,7,1000} x 8 sentinel styles (autoincrement without/with "
    "implicit-sentinel support/with the INSERT..SELECT counter form, insert_sentinel() with the "
    "built-in and a custom default, client uuid default, composite client PK, client integer PK, "
    "server-default PK without sentinel, omitted non-autoincrement PK) x 4 paramstyles (qmark, "
    "named, numeric, numeric_dollar), RETURNING rows of every statement permuted in the harness "
    "(reverse / random keys) by patching DefaultExecutionContext.fetchall_for_returning; plus "
    "max_params clamps, upsert downgrades, non-multivalues dialect, DEFAULT VALUES inserts, bound "
    "parameters outside VALUES (constant and per-row), a VALUES element with three bound parameters, "
    "sort_by_parameter_order off, no RETURNING, RETURNING column order, non-positive page sizes, injected "
    "row loss / duplicate / wrong sentinel (guards); insertmanyvalues_max_parameters is also enforced by "
    "the database (sqlite3 setlimit). quick: above 6 rows 2 (above 20 rows 1) of the 9 style combinations per (n, page) "
    "in rotation, paramstyles in rotation; thorough: full product. "
    "ORM bulk insert through session.execute(insert(Entity).returning(..)) with all key-set sequences of "
    "length <= 4 over 3 key sets + random longer ones; upserts over fresh and over existing keys with "
    "SET d = excluded.d / :param / :param behind a bind_expression TypeDecorator / excluded.d + :param. "
    "non-trivial = more than one batch and a non-identity return permutation (ORM: more than one key set)"
)
TRUSTED = [
    "hand-written Gallina transcription of SQLCompiler._deliver_insertmanyvalues_batches, "
    "DefaultDialect._deliver_insertmanyvalues_batches and the consumer loop of "
    "Connection._exec_insertmany_context, pinned to the normalised source (translate/fingerprint.py), "
    "its decision and arithmetic expressions re-extracted from the AST on every run (C12_gen.v), and "
    "compared behaviourally",
    "the database as a function parameter of the model: assumed to insert each VALUES row once and to "
    "return one RETURNING row per VALUES row of a statement in ANY order; for implicit (autoincrement) "
    "sentinels additionally to number the rows increasingly in VALUES order (validated on SQLite on "
    "every run; trusted for PostgreSQL/MariaDB/MSSQL)",
    "SQL text rewriting is observed, not modelled: the harness parses the VALUES groups, numeric "
    "placeholders and counters out of the emitted statement",
    "ORM bulk insert: _emit_insert_statements is modelled at list level only (groupby on the key set, "
    "one executemany per group, splice in execution order); each group's executemany is the Core model; "
    "Result.splice_vertically = list append; where has_upsert_bound_parameters comes from "
    "(visit_bindparam / visit_on_conflict_do_update) is pinned and echo-checked, not modelled",
    "not modelled: escaped_bind_names (identity here), schema_translate_map rendering, the setinputsizes "
    "expansion (mssql+pyodbc), engine events / logging in _exec_insertmany_context",
]
ASSUMPTIONS = [
    "insertmanyvalues_page_size >= 1 (0 raises ZeroDivisionError, negative never completes: proved and shown)",
    "sentinel values of one executemany are pairwise distinct (otherwise the documented "
    "InvalidRequestError is raised: proved)",
    "executed on SQLite only; PostgreSQL/MariaDB/MSSQL paths (implicit sentinel, INSERT..SELECT "
    "counter form) are emulated on SQLite by switching the dialect flags in the harness process",
]


# ------------------------------------------------------------------------------------------------
# T2: the decision and arithmetic expressions of the two anchored functions, re-extracted from the
# AST on every run and proved equal to the model's definitions (build/C12/C12_gen.v).  Anything the
# small translator does not know fails closed.
class _T2Error(Exception):
    pass


_BOOL_ATOMS = {
    "imv.is_default_expr": "is_default_expr f",
    "self.dialect.supports_default_metavalue": "supports_default_metavalue f",
    "self.dialect.supports_multivalues_insert": "supports_multivalues_insert f",
    "sort_by_parameter_order": "sbo",
    "self._result_columns": "result_columns f",
    "imv.includes_upsert_behaviors": "includes_upsert_behaviors f",
    "imv.embed_values_counter": "embed_values_counter f",
    "imv.has_upsert_bound_parameters": "has_upsert_bound_parameters f",
    "self._numeric_binds": "numeric_binds",
    "imv_batch.is_downgraded": "is_downgraded",
}
_INT_ATOMS = {
    "len(imv.insert_crud_params)": "num_elements",
    "sum((len(elem[3]) for elem in imv.insert_crud_params))": "num_values_binds",
    "imv.num_sentinel_columns": "num_sentinel_columns",
    "len(rows_by_sentinel)": "dict_len",
    "len(imv_batch.batch)": "batch_len",
}


def _bexpr(node, ints=()):
    """Python boolean expression (over the whitelisted atoms) -> Gallina bool term"""
    import ast

    if isinstance(node, ast.BoolOp):
        op = " && " if isinstance(node.op, ast.And) else " || "
        return "(" + op.join(_bexpr(v, ints) for v in node.values) + ")"
    if isinstance(node, ast.UnaryOp) and isinstance(node.op, ast.Not):
        return "(negb %s)" % _bexpr(node.operand, ints)
    if isinstance(node, ast.Compare) and len(node.ops) == 1:
        l, o, r = node.left, node.ops[0], node.comparators[0]
        if isinstance(o, ast.Is) and isinstance(r, ast.Constant) and r.value is None and ast.unparse(l) == "imv.sentinel_columns":
            return "(sentinel_columns_none f)"
        ops = {ast.Gt: ">?", ast.Lt: "<?", ast.GtE: ">=?", ast.LtE: "<=?", ast.Eq: "=?"}
        if type(o) in ops:
            return "(%s %s %s)" % (_zexpr(l, ints), ops[type(o)], _zexpr(r, ints))
        if isinstance(o, ast.NotEq):
            return "(negb (%s =? %s))" % (_zexpr(l, ints), _zexpr(r, ints))
        raise _T2Error("comparison " + ast.unparse(node))
    src = ast.unparse(node)
    if src in _BOOL_ATOMS:
        return "(%s)" % _BOOL_ATOMS[src]
    if src in _INT_ATOMS or src in ints:  # truthiness of an int
        return "(truthy %s)" % _zexpr(node, ints)
    raise _T2Error("boolean atom " + src)


def _zexpr(node, ints=(), subst=None):
    """Python int expression -> Gallina Z term (// and % are Python floor operations = Z.div, Z.modulo)"""
    import ast

    subst = subst or {}
    if isinstance(node, ast.Constant) and isinstance(node.value, int) and not isinstance(node.value, bool):
        return str(node.value) if node.value >= 0 else "(%d)" % node.value
    if isinstance(node, ast.Name):
        if node.id in subst:
            return subst[node.id]
        if node.id in ints:
            return node.id
        raise _T2Error("int name " + node.id)
    if isinstance(node, ast.BinOp):
        ops = {ast.Add: "+", ast.Sub: "-", ast.Mult: "*", ast.FloorDiv: "/", ast.Mod: "mod"}
        if type(node.op) not in ops:
            raise _T2Error("operator " + ast.unparse(node))
        return "(%s %s %s)" % (_zexpr(node.left, ints, subst), ops[type(node.op)], _zexpr(node.right, ints, subst))
    if isinstance(node, ast.Call) and isinstance(node.func, ast.Name) and node.func.id in ("min", "max") and len(node.args) == 2:
        return "(Z.%s %s %s)" % (node.func.id, _zexpr(node.args[0], ints, subst), _zexpr(node.args[1], ints, subst))
    if isinstance(node, ast.IfExp):
        return "(if truthy %s then %s else %s)" % (
            _zexpr(node.test, ints, subst), _zexpr(node.body, ints, subst), _zexpr(node.orelse, ints, subst))
    src = ast.unparse(node)
    if src in _INT_ATOMS:
        return _INT_ATOMS[src]
    raise _T2Error("int expression " + src)


def _assign_of(fn, name, nth=0):
    import ast

    found = []
    for n in ast.walk(fn):
        if isinstance(n, ast.Assign) and len(n.targets) == 1 and isinstance(n.targets[0], ast.Name) and n.targets[0].id == name:
            found.append(n)
    found.sort(key=lambda n: n.lineno)
    if len(found) <= nth:
        raise _T2Error("assignment to %s not found" % name)
    return found[nth].value


def _gen_source(repo):
    import ast
    import os

    from translate.fingerprint import find_node

    with open(os.path.join(repo, "lib/sqlalchemy/sql/compiler.py")) as fh:
        comp = find_node(ast.parse(fh.read()), "SQLCompiler._deliver_insertmanyvalues_batches")
    with open(os.path.join(repo, "lib/sqlalchemy/engine/default.py")) as fh:
        deft = find_node(ast.parse(fh.read()), "DefaultDialect._deliver_insertmanyvalues_batches")

    # --- the mode decision: if / elif / elif / else assigning use_row_at_a_time, downgraded ---
    chain = None
    for n in ast.walk(comp):
        if isinstance(n, ast.If) and any(
            isinstance(b, ast.Assign) and ast.unparse(b.targets[0]) == "use_row_at_a_time" for b in n.body
        ):
            if chain is None or n.lineno < chain.lineno:
                chain = n
    if chain is None:
        raise _T2Error("mode decision chain not found")

    def consts(body):
        vals = {}
        for b in body:
            if not (isinstance(b, ast.Assign) and isinstance(b.value, ast.Constant) and isinstance(b.value.value, bool)):
                raise _T2Error("unexpected statement in the mode decision: " + ast.unparse(b))
            vals[ast.unparse(b.targets[0])] = "true" if b.value.value else "false"
        if set(vals) != {"use_row_at_a_time", "downgraded"}:
            raise _T2Error("mode decision branch assigns " + str(sorted(vals)))
        return "(%s, %s)" % (vals["use_row_at_a_time"], vals["downgraded"])

    branches = []
    node = chain
    while True:
        branches.append((_bexpr(node.test), consts(node.body)))
        if len(node.orelse) == 1 and isinstance(node.orelse[0], ast.If):
            node = node.orelse[0]
        else:
            final = consts(node.orelse)
            break
    decide = ""
    for cond, val in branches:
        decide += "if %s then %s else " % (cond, val)
    decide += final

    # --- the clamp ---
    clamp_if = None
    for n in ast.walk(comp):
        if isinstance(n, ast.If) and ast.unparse(n.test) == "max_params":
            clamp_if = n
    if clamp_if is None:
        raise _T2Error("`if max_params:` not found")
    names = [ast.unparse(b.targets[0]) for b in clamp_if.body if isinstance(b, ast.Assign)]
    if names != ["total_num_of_params", "num_params_per_batch", "num_params_outside_of_batch", "batch_size"] or clamp_if.orelse:
        raise _T2Error("clamp block changed: " + str(names))
    ints = ("batch_size", "max_params", "total_num_of_params", "num_params_per_batch", "lenparams",
            "expand_pos_lower_index", "num_ins_params", "current_batch_size", "start")
    per_batch = _zexpr(clamp_if.body[1].value, ints)
    outside = _zexpr(clamp_if.body[2].value, ints)
    clamp = _zexpr(clamp_if.body[3].value, ints, {"num_params_outside_of_batch": outside})
    total = _zexpr(_assign_of(comp, "total_batches"), ints)
    start = _zexpr(_assign_of(comp, "start"), ints)
    end = _zexpr(_assign_of(comp, "end"), ints)
    # the guard of the numeric renumbering: the `if` that contains `start = ...`
    numeric_if = None
    for n in ast.walk(comp):
        if isinstance(n, ast.If) and any(isinstance(b, ast.Assign) and ast.unparse(b.targets[0]) == "start" for b in n.body):
            numeric_if = n
    if numeric_if is None:
        raise _T2Error("numeric renumbering block not found")
    numeric_guard = _bexpr(numeric_if.test, ints)
    # current_batch_size = batch_size if batches else len(batch)
    cbs_if = None
    for n in ast.walk(comp):
        if isinstance(n, ast.If) and ast.unparse(n.test) == "batches" and len(n.body) == 1 and len(n.orelse) == 1:
            cbs_if = n
    if cbs_if is None or ast.unparse(cbs_if.body[0]) != "current_batch_size = batch_size" or ast.unparse(
        cbs_if.orelse[0]
    ) != "current_batch_size = len(batch)":
        raise _T2Error("current_batch_size selection changed")
    src = ast.unparse(comp)
    for must in ("batch = batches[0:batch_size]", "batches[0:batch_size] = []", "compiled_batches[0:batch_size] = []",
                 "compiled_batch = compiled_batches[0:batch_size]", "while batches:", "batchnum += 1",
                 "lenparams = len(parameters)", "expand_pos_lower_index = min(all_expand_positions)",
                 "expand_pos_upper_index = max(all_expand_positions) + 1",
                 "extra_params_left = batch[0][:expand_pos_lower_index]",
                 "extra_params_right = batch[0][expand_pos_upper_index:]",
                 "(b[expand_pos_lower_index:expand_pos_upper_index] for b in batch)",
                 "range(start, end)", "replace('_IMV_VALUES_COUNTER', str(i)) for i, _ in enumerate(batch)",
                 "for i, param in enumerate(batch):", "fmv.replace('_IMV_VALUES_COUNTER', str(i))",
                 "(executemany_values_w_comma * current_batch_size)[:-2]",
                 "{f'{key}__{i}': param[key] for key in keys_to_replace}",
                 "for key in all_keys.difference(keys_to_replace)"):
        if must not in src:
            raise _T2Error("statement no longer present: " + must)

    # --- default.py: the merge guards ---
    merge_if = None
    for n in ast.walk(deft):
        if isinstance(n, ast.If) and "num_sentinel_columns" in ast.unparse(n.test) and "is_downgraded" in ast.unparse(n.test):
            merge_if = n
    if merge_if is None:
        raise _T2Error("merge guard not found")
    merge_guard = _bexpr(merge_if.test)
    composite = _bexpr(_assign_of(deft, "composite_sentinel"))
    rc_if = None
    for n in ast.walk(deft):
        if isinstance(n, ast.If) and "len(rows_by_sentinel)" in ast.unparse(n.test):
            rc_if = n
    if rc_if is None or not (len(rc_if.body) == 1 and isinstance(rc_if.body[0], ast.Raise)):
        raise _T2Error("rowcount guard not found")
    rowcount = _bexpr(rc_if.test)
    dsrc = ast.unparse(deft)
    for must in ("result.extend(sorted(rows, key=operator.itemgetter(-1)))", "result.extend(ordered_rows)",
                 "result.extend(rows)", "for sentinel_keys in imv_batch.sentinel_values",
                 "rows = context.fetchall_for_returning(cursor)", "sort_by_parameter_order = imv.sort_by_parameter_order",
                 "sort_by_parameter_order = False", "except KeyError as ke", "if imv.implicit_sentinel:"):
        if must not in dsrc:
            raise _T2Error("statement no longer present: " + must)

    with open(os.path.join(repo, "lib/sqlalchemy/orm/persistence.py")) as fh:
        emit = find_node(ast.parse(fh.read()), "_emit_insert_statements")
    esrc = ast.unparse(emit)
    for must in ("return_result = None", "return_result = return_result.splice_vertically(result)",
                 "return_result = result", "return _cursor.null_dml_result()", "set(rec[2])", "in groupby(insert,"):
        if must not in esrc:
            raise _T2Error("statement no longer present in _emit_insert_statements: " + must)
    splice_ifs = [n for n in ast.walk(emit) if isinstance(n, ast.If) and ast.unparse(n.test) == "return_result is None"]
    if not any(
        len(n.body) == 1 and ast.unparse(n.body[0]) == "return_result = result"
        and len(n.orelse) == 1 and ast.unparse(n.orelse[0]) == "return_result = return_result.splice_vertically(result)"
        for n in splice_ifs
    ):
        raise _T2Error("the per-group result splice of _emit_insert_statements changed")

    return """(* generated by specs/c12.py translate() from the current source - do not edit *)
From Coq Require Import ZArith Bool List.
From SAV.sql Require Import IMV.
Open Scope Z_scope.

Definition gen_decide_mode (sbo : bool) (f : flags) : bool * bool :=
  %(decide)s.
Lemma gen_decide_mode_ok : forall sbo f, gen_decide_mode sbo f = decide_mode sbo f.
Proof. intros sbo [a b c d e g h i]; destruct sbo, a, b, c, d, e, g, h, i; reflexivity. Qed.

Definition gen_params_per_batch (num_elements num_values_binds : Z) : Z :=
  %(per_batch)s.
Lemma gen_params_per_batch_ok : forall a b, gen_params_per_batch a b = params_per_batch_expr a b.
Proof. reflexivity. Qed.

Definition gen_clamp_expr (batch_size max_params total_num_of_params num_params_per_batch : Z) : Z :=
  %(clamp)s.
Lemma gen_clamp_expr_ok : forall a b c d, gen_clamp_expr a b c d = clamp_expr a b c d.
Proof. reflexivity. Qed.

Definition gen_total_batches (lenparams batch_size : Z) : Z :=
  %(total)s.
Lemma gen_total_batches_ok : forall a b, gen_total_batches a b = total_batches_expr a b.
Proof. reflexivity. Qed.

Definition gen_numeric_guard (numeric_binds : bool) (num_ins_params : Z) : bool :=
  %(numeric_guard)s.
Lemma gen_numeric_guard_ok : forall a b, gen_numeric_guard a b = numeric_guard a b.
Proof. reflexivity. Qed.
Definition gen_numeric_start (expand_pos_lower_index : Z) : Z :=
  %(start)s.
Lemma gen_numeric_start_ok : forall a, gen_numeric_start a = numeric_start a.
Proof. reflexivity. Qed.
Definition gen_numeric_end (num_ins_params current_batch_size start : Z) : Z :=
  %(end)s.
Lemma gen_numeric_end_ok : forall a b c, gen_numeric_end a b c = numeric_end a b c.
Proof. reflexivity. Qed.

Definition gen_merge_guard (num_sentinel_columns : Z) (is_downgraded : bool) : bool :=
  %(merge_guard)s.
Lemma gen_merge_guard_ok : forall a b, gen_merge_guard a b = merge_guard a b.
Proof. reflexivity. Qed.
Definition gen_composite_sentinel (num_sentinel_columns : Z) : bool :=
  %(composite)s.
Lemma gen_composite_sentinel_ok : forall a, gen_composite_sentinel a = composite_sentinel a.
Proof. reflexivity. Qed.
Definition gen_rowcount_differs (dict_len batch_len : Z) : bool :=
  %(rowcount)s.
Lemma gen_rowcount_differs_ok : forall a b : nat,
  gen_rowcount_differs (Z.of_nat a) (Z.of_nat b) = rowcount_differs a b.
Proof. intros a b. unfold gen_rowcount_differs, rowcount_differs. f_equal.
  destruct (Nat.eqb a b) eqn:E.
  - apply Nat.eqb_eq in E. subst. apply Z.eqb_refl.
  - apply Z.eqb_neq. intros H. apply Nat2Z.inj in H. subst. rewrite Nat.eqb_refl in E. discriminate. Qed.
""" % dict(per_batch=per_batch, decide=decide, clamp=clamp, total=total, numeric_guard=numeric_guard, start=start, end=end,
           merge_guard=merge_guard, composite=composite, rowcount=rowcount)


def translate(repo, outdir):
    import os

    from translate import fingerprint

    out = []
    err = None
    try:
        text = _gen_source(repo)
        path = os.path.join(outdir, "C12_gen.v")
        with open(path, "w") as fh:
            fh.write(text)
        out.append(path)
    except _T2Error as e:
        err = e
    if err is not None:
        raise fingerprint.TranslateError("T2: cannot translate the anchored expressions: %s" % err)
    try:
        fingerprint.check(repo, ANCHORS, "C12")
    except fingerprint.TranslateError as e:
        # the pin fails closed; say additionally whether the re-extracted expressions still equal the model's
        from vlib import coqrun

        rc, log_ = coqrun.coqc(out[0], outdir, timeout=300)
        if rc == 0:
            note = "T2: the re-extracted expressions still equal the model's (the change is elsewhere)"
        else:
            m = re.search(r'File "[^"]*", line (\d+)', log_)
            lemma = "?"
            if m:
                with open(out[0]) as fh:
                    lines = fh.read().split("\n")[: int(m.group(1))]
                names = [ln.split()[1] for ln in lines if ln.startswith("Lemma ")]
                lemma = names[-1] if names else "?"
            note = "T2: generated obligation %s no longer holds" % lemma
        raise fingerprint.TranslateError("%s\n%s" % (note, e))
    return out


# ------------------------------------------------------------------------------------------------
# generator: the style table (what the compiler derives for each table shape) lives HERE and is
# validated against the real compiler by the echo.
def _layout(sname, pstyle, extra, upsert, defonly, want_sentinel=True):
    if sname == "sentinel":
        # the built-in sentinel default is omitted from statements that do not need it
        vnames = ["d", "sent"] if want_sentinel else ["d"]
    elif sname == "csentinel":
        vnames = ["d", "sent"]
    elif sname == "uuid":
        vnames = ["id", "d"]
    elif sname == "composite":
        vnames = ["a", "b", "d"]
    elif sname == "clientpk":
        vnames = ["id", "d"]
    elif sname == "multibind":  # INSERT INTO t (d) VALUES (coalesce(:a, :b, :c)): one element, three binds
        vnames = ["a", "b", "c"]
    else:
        vnames = ["d"]
    if defonly:
        vnames = []
    xnames = []
    if extra:
        xnames.append("off")
    if upsert in (2, 3):
        xnames.append("newd")
    elif upsert == 4:
        xnames.append("sfx")
    if PSTYLES[pstyle].startswith("numeric"):
        order = xnames + vnames
    else:
        order = vnames + xnames
    return vnames, xnames, order


def make_case(rng, style, dopt=0, pstyle=0, sbo=1, returning=1, upsert=0, extra=0, mv=1, defmeta=1,
              defonly=0, page=1000, maxp=32700, n=5, perm="rand", fault=None, wo_ret=0, kind="grid", dupsent=False,
              dfirst=0, retdef=0, conflict=0):
    sname = STYLES[style]
    named = int(PSTYLES[pstyle] == "named")
    numeric = int(PSTYLES[pstyle].startswith("numeric"))
    want_sentinel = bool(returning and sbo)
    vnames, xnames, order = _layout(sname, pstyle, extra, upsert, defonly, want_sentinel)
    pos = {nm: i for i, nm in enumerate(order)}
    nsc = implicit = has_keys = embed = 0
    sent_names = []
    if want_sentinel:
        if sname in ("autoinc", "multibind") and dopt >= 1:
            nsc, implicit = 1, 1
            embed = int(dopt == 2 and not defonly)
        elif sname in ("sentinel", "csentinel"):
            nsc, has_keys, sent_names = 1, 1, ["sent"]
        elif sname == "uuid":
            nsc, has_keys, sent_names = 1, 1, ["id"]
        elif sname == "composite":
            nsc, has_keys, sent_names = 2, 1, ["a", "b"]
        elif sname == "clientpk":
            nsc, has_keys, sent_names = 1, 1, ["id"]
        elif sname == "omitpk":
            nsc = 0  # since 56a4cbe: no usable sentinel -> sentinel_columns None -> row-at-a-time
    is_default_expr = int(bool(defonly and not defmeta))
    if defonly:
        per_batch = 1 if defmeta else 0
        nvalues_binds = 0
    else:
        per_batch = 1 if sname == "multibind" else len(vnames)
        nvalues_binds = len(vnames)
    total = nvalues_binds + len(xnames)
    cfg = [
        is_default_expr, int(defmeta), int(mv), int(returning), int(nsc == 0), int(upsert > 0), embed,
        int(upsert >= 2), page, maxp, total, per_batch, int(returning), int(bool(sbo and returning)),
        nsc, implicit, has_keys, named, 0 if named else nvalues_binds, numeric, nvalues_binds,
    ]
    mask = [1 if nm in vnames else 0 for nm in order]
    sent_pos = [pos[nm] for nm in sent_names]
    # parameter tuples
    ds = rng.sample(range(100, 100 + 4 * max(n, 1)), n)
    ids = rng.sample(range(1, 1 + 5 * max(n, 1)), n)
    us = rng.sample(range(1, 1 << 20), n)
    if dupsent and n >= 2:
        a, b = rng.sample(range(n), 2)
        us[b] = us[a]
    offs = [7] * n if extra == 1 else [10 * rng.randint(0, 9) for _ in range(n)]
    tuples = []
    for i in range(n):
        vals = {"d": ds[i], "off": offs[i], "newd": 500 + 7 * i, "sfx": 1000 * (i + 1), "a": ids[i], "b": us[i]}
        if sname == "multibind":
            vals = {"a": ds[i], "b": 1, "c": 2, "off": offs[i]}
        if sname == "sentinel":
            vals["sent"] = i
        elif sname == "csentinel":
            vals["sent"] = us[i]
        elif sname == "uuid":
            vals["id"] = us[i]
        elif sname == "clientpk":
            vals["id"] = ids[i]
        tuples.append([vals[nm] for nm in order])
    # the row the database returns
    dname = "a" if sname == "multibind" else "d"
    if conflict and upsert in (2, 3):
        D = [4]             # the row existed: d := :newd
    elif conflict and upsert == 4:
        D = [2, pos["d"]]   # d := excluded.d + :sfx
    elif defonly:
        D = [3]
    elif extra:
        D = [2, pos[dname]]
    else:
        D = [1, pos[dname]]
    if sname == "none":
        ret = [D]
    elif sname in ("autoinc", "sentinel", "csentinel", "omitpk", "multibind"):
        ret = [[0], D]
    elif sname == "composite":
        ret = [[1, pos["a"]], [1, pos["b"]], D]
    else:
        ret = [[1, pos["id"]], D]
    if dfirst:  # RETURNING d, <key columns> instead of <key columns>, d
        ret = [ret[-1]] + ret[:-1]
    if nsc:
        if implicit:
            ret = ret + [[0]]
        else:
            ret = ret + [[1, pos[nm]] for nm in sent_names]
    if not returning:
        ret = []
    if perm == "id":
        keys = [0] * n
    elif perm == "rev":
        keys = [n - i for i in range(n)]
    else:
        keys = [rng.randint(0, 3 * n + 1) for _ in range(n)]
    setup = [style, dopt, pstyle, upsert, extra, wo_ret, int(defonly), int(dfirst), int(retdef), int(conflict)]
    return {"in": [cfg, mask, sent_pos, ret, tuples, keys, list(fault or []), setup, [1] if conflict else []], "kind": kind,
            "model": n >= 2}


def _cfg(c):
    return dict(zip(CFG_FIELDS, c["in"][0]))


def gen_cases(rng, tier):
    cases = []
    pages = [1, 2, 3, 7, 1000]
    # (style, dopt) combinations that give each sentinel mechanism
    combos = [(0, 0), (0, 1), (0, 2), (1, 0), (2, 0), (3, 0), (4, 0), (5, 0), (7, 0)]
    ns = list(range(0, 41))
    # 1. the grid: every n x page x style; paramstyle and permutation rotate (thorough: all paramstyles)
    #    quick: above 6 rows every (n, page) pair still occurs, with 2 (above 20 rows: 1) of the 9 styles in rotation
    g = 0
    for n in ns:
        for page in pages:
            for ci, (style, dopt) in enumerate(combos):
                g += 1
                if tier != "thorough" and n > 6 and (ci + 2 * n + page) % 9 >= (2 if n <= 20 else 1):
                    continue
                pss = range(4) if tier == "thorough" else [g % 4]
                for ps in pss:
                    perm = ["rand", "rev", "rand", "id"][(g // 4) % 4] if n > 1 else "id"
                    cases.append(make_case(rng, style, dopt=dopt, pstyle=ps, page=page, n=n, perm=perm, kind="grid",
                                           dfirst=(g // 2) % 2))
    # 2. small-scope exhaustive over the remaining switches (n = 5, page = 2)
    for style, dopt in combos:
        for ps in range(4):
            if tier != "thorough" and (ps + style + dopt) % 2:
                continue
            for sbo in (0, 1):
                for extra in (0, 1):
                    cases.append(make_case(rng, style, dopt=dopt, pstyle=ps, sbo=sbo, extra=extra, page=2, n=5,
                                           perm="rev", kind="switches"))
            if dopt != 2:  # (the counter form is only rendered by dialects that support multi-VALUES)
                cases.append(make_case(rng, style, dopt=dopt, pstyle=ps, mv=0, page=2, n=4, kind="no-multivalues"))
    for ps in range(4):
        for dopt in (0, 1, 2):
            for defmeta in (0, 1):
                for sbo in (0, 1):
                    cases.append(make_case(rng, 0, dopt=dopt, pstyle=ps, sbo=sbo, defonly=1, defmeta=defmeta, page=2,
                                           n=5, perm="rev", kind="default-values"))
        # upserts: fresh keys and keys that all exist already (then every parameter set must be applied
        # with ITS OWN SET value: bound parameter, bound parameter behind a bind_expression type, bound
        # parameter nested in an expression) - batched only without such a parameter
        for upsert in (1, 2, 3, 4):
            for sbo in (0, 1):
                for page in (2, 1000):
                    for conflict in (0, 1):
                        cases.append(make_case(rng, 5, pstyle=ps, sbo=sbo, upsert=upsert, page=page, n=5, perm="rev",
                                               conflict=conflict, kind="upsert"))
        for style, dopt in ((0, 0), (0, 1), (5, 0), (1, 0)):
            cases.append(make_case(rng, style, dopt=dopt, pstyle=ps, returning=0, wo_ret=1, page=3, n=7,
                                   kind="no-returning"))
        # the max_params clamp (per_batch = 2 for clientpk: sizes (maxp - outside) // 2)
        for maxp in (0, 2, 3, 4, 5, 9, 10, 11):
            for extra in (0, 1):
                cases.append(make_case(rng, 5, pstyle=ps, extra=extra, page=4, maxp=maxp, n=11, kind="clamp"))
        cases.append(make_case(rng, 5, pstyle=ps, page=5, maxp=1, n=4, kind="clamp-nonpositive"))
        # non-positive page sizes
        for page in (0, -1, -3):
            cases.append(make_case(rng, 5, pstyle=ps, page=page, maxp=0, n=4, kind="bad-page-size"))
    # 3. guards: the database loses / duplicates a row or returns a foreign sentinel; duplicate
    #    client-side sentinel values
    for ps in range(4):
        for style, dopt in ((1, 0), (2, 0), (3, 0), (5, 0), (7, 0), (0, 1)):
            if tier != "thorough" and (ps + style) % 2:
                continue
            for fk in (1, 2, 3):
                n = 6
                cases.append(make_case(rng, style, dopt=dopt, pstyle=ps, page=4, n=n,
                                       fault=[fk, rng.randrange(n), 999983], kind="fault"))
        cases.append(make_case(rng, 7, pstyle=ps, page=1000, n=6, dupsent=True, kind="duplicate-sentinel"))
        cases.append(make_case(rng, 7, pstyle=ps, page=1, n=6, dupsent=True, kind="duplicate-sentinel"))
    # 4. per-row values for a bound parameter outside VALUES (finding C12-nonvalues-bind) and the
    #    omitted non-autoincrement primary key (finding C12-omitted-pk-assert)
    for ps in range(4):
        for page in (1, 2, 1000):
            cases.append(make_case(rng, 5, pstyle=ps, extra=2, page=page, n=5, kind="per-row-extra"))
        for page in (1, 2, 1000):
            cases.append(make_case(rng, 6, pstyle=ps, page=page, n=3, kind="omitted-pk"))
    # 4a. the ORM-style path: return_defaults(sort_by_parameter_order=True) and inserted_primary_key_rows
    for ps in range(4):
        #   (only where the key is generated by the server: client-side keys need no RETURNING at all)
        for style, dopt in ((0, 0), (0, 1), (0, 2), (1, 0), (7, 0)):
            for page in (2, 1000):
                cases.append(make_case(rng, style, dopt=dopt, pstyle=ps, page=page, n=5, perm="rev", retdef=1,
                                       kind="return-defaults"))
    # 4b. a VALUES element with several bound parameters: under the limit (modelled) and over it
    #     (finding C12-clamp-counts-elements: the clamp divides by the number of elements)
    for ps in range(4):
        for dopt, sbo in ((0, 0), (1, 1)):
            for page, maxp in ((2, 32700), (4, 0), (3, 40), (4, 12), (4, 10), (1000, 20)):
                cases.append(make_case(rng, 8, dopt=dopt, pstyle=ps, sbo=sbo, page=page, maxp=maxp, n=9, kind="multibind"))
    # 4c. ORM bulk insert with an ORM-enabled insert(): heterogeneous key sets (one executemany per run
    #     of equal key sets, results spliced), with / without sort_by_parameter_order, page sizes,
    #     rows and entities; all key-set sequences of length <= 4 over 3 key sets + longer random ones
    import itertools

    g = 0
    for n in (1, 2, 3, 4):
        for ks in itertools.product((0, 1, 3), repeat=n):
            g += 1
            cases.append(make_orm_case(rng, ks, sbo=1 if g % 4 else 0, page=[1, 2, 1000][g % 3], dopt=g % 2,
                                       pstyle=g % 4, ent=(g // 2) % 2))
    for _ in range(400 if tier == "thorough" else 40):
        n = rng.randint(2, 12)
        ks, cur = [], rng.randrange(4)
        for _i in range(n):
            if rng.random() < 0.4:
                cur = rng.randrange(4)
            ks.append(cur)
        cases.append(make_orm_case(rng, ks, sbo=rng.choice([1, 1, 0]), page=rng.choice([1, 2, 3, 1000]),
                                   dopt=rng.randrange(2), pstyle=rng.randrange(4), ent=rng.randrange(2)))
    # 4d. statements whose rewriting depends on the text of the VALUES clause (oracle only)
    for variant in range(3):
        for ps in range(4):
            for page in (2, 1000):
                cases.append({"in": [101, variant, ps, page, rng.sample(range(100, 999), 5)], "kind": "statement-text",
                              "model": False})
    # 5. random larger ones
    nrand = 4000 if tier == "thorough" else 80
    for _ in range(nrand):
        style, dopt = rng.choice(combos)
        cases.append(
            make_case(rng, style, dopt=dopt, pstyle=rng.randrange(4), sbo=rng.choice([1, 1, 1, 0]),
                      extra=rng.choice([0, 0, 1]), page=rng.choice([1, 2, 3, 4, 5, 7, 8, 16, 1000]),
                      maxp=rng.choice([32700, 32700, 0, 12, 20, 33]), n=rng.randint(2, 40),
                      perm=rng.choice(["rand", "rand", "rev"]), dfirst=rng.randrange(2), kind="random")
        )
    rng.shuffle(cases)  # evens out the size of the cases_k.v shards
    return cases


def nontrivial(c):
    if c["in"][0] == 101:
        return False
    if c["in"][0] == 100:
        return len(set(c["in"][2])) > 1
    cfg = _cfg(c)
    n = len(c["in"][4])
    keys = c["in"][5]
    return n > cfg["page_size"] >= 1 and keys != sorted(keys)


# ------------------------------------------------------------------------------------------------
# implementation side
_ENV = {}


def impl_setup():
    import warnings

    warnings.simplefilter("ignore")
    from sqlalchemy.dialects import registry

    registry.register("sqlite.pysqlite_numeric", "sqlalchemy.dialects.sqlite.pysqlite", "_SQLiteDialect_pysqlite_numeric")
    registry.register("sqlite.pysqlite_dollar", "sqlalchemy.dialects.sqlite.pysqlite", "_SQLiteDialect_pysqlite_dollar")
    _ENV["ready"] = True


_RX_SEL = re.compile(r"SELECT (.*?) FROM \(VALUES (.*)\) AS imp_sen\((.*?)\) ORDER BY sen_counter", re.S)


def _rewrite_for_sqlite(st):
    """SQLite has no `AS alias(col, ...)` for a VALUES subquery; same statement with column1..N"""
    m = _RX_SEL.search(st)
    if not m:
        return st
    names = [x.strip() for x in m.group(3).split(",")]
    sel = m.group(1)
    for i, nm in enumerate(names):
        sel = re.sub(r"\b%s\b" % re.escape(nm), "column%d" % (i + 1), sel)
    return st[: m.start()] + "SELECT %s FROM (VALUES %s) ORDER BY column%d" % (sel, m.group(2), len(names)) + st[m.end():]


def _values_groups(st):
    """the parenthesised groups following VALUES in a rewritten statement"""
    i = st.find("VALUES ")
    if i < 0:
        return None
    i += len("VALUES ")
    groups = []
    while i < len(st) and st[i] == "(":
        depth = 0
        j = i
        while j < len(st):
            if st[j] == "(":
                depth += 1
            elif st[j] == ")":
                depth -= 1
                if depth == 0:
                    break
            j += 1
        groups.append(st[i + 1: j])
        i = j + 1
        if st.startswith(", ", i):
            i += 2
        else:
            break
    return groups


def _canon(v):
    import uuid

    if v is None:
        return NULL
    if isinstance(v, bool):
        return int(v)
    if isinstance(v, int):
        return v
    if isinstance(v, uuid.UUID):
        return v.int
    if isinstance(v, str):
        return int(v, 16)
    raise TypeError("cannot canonicalise %r" % (v,))


def _build(setup):
    """a real engine + table + INSERT construct for a setup"""
    import uuid as _uuid

    import sqlalchemy as sa
    from sqlalchemy.dialects import sqlite as sqlite_d
    from sqlalchemy.sql.compiler import InsertmanyvaluesSentinelOpts as O

    style, dopt, pstyle, upsert, extra, wo_ret, defonly, dfirst, retdef, conflict = setup
    sname = STYLES[style]
    ps = PSTYLES[pstyle]
    if ps == "qmark":
        eng = sa.create_engine("sqlite://")
    elif ps == "named":
        eng = sa.create_engine("sqlite://", paramstyle="named")
    elif ps == "numeric":
        eng = sa.create_engine("sqlite+pysqlite_numeric://")
    else:
        eng = sa.create_engine("sqlite+pysqlite_dollar://")
    d = eng.dialect
    if dopt == 1:
        d.insertmanyvalues_implicit_sentinel = O.AUTOINCREMENT
    elif dopt == 2:
        d.insertmanyvalues_implicit_sentinel = O.AUTOINCREMENT | O.USE_INSERT_FROM_SELECT
    if wo_ret:
        d.use_insertmanyvalues_wo_returning = True
    md = sa.MetaData()
    it = {"vals": iter(())}

    def nextval(ctx=None):
        return next(it["vals"], 0)

    C, I = sa.Column, sa.Integer
    if sname in ("autoinc", "multibind"):
        t = sa.Table("t", md, C("id", I, primary_key=True), C("d", I))
    elif sname == "sentinel":
        t = sa.Table("t", md, C("id", I, primary_key=True), C("d", I), sa.insert_sentinel("sent"))
    elif sname == "csentinel":
        t = sa.Table("t", md, C("id", I, primary_key=True), C("d", I), sa.insert_sentinel("sent", default=nextval))
    elif sname == "uuid":
        t = sa.Table("t", md, C("id", sa.Uuid, primary_key=True, default=lambda: _uuid.UUID(int=nextval())), C("d", I))
    elif sname == "composite":
        t = sa.Table("t", md, C("a", I, primary_key=True, autoincrement=False), C("b", sa.Uuid, primary_key=True), C("d", I))
    elif sname == "none":
        t = sa.Table("t", md, C("id", sa.String, primary_key=True, server_default=sa.text("(lower(hex(randomblob(8))))")),
                     C("d", I))
    elif sname in ("clientpk", "omitpk"):
        dtype = I
        if upsert == 3:
            class AbsInt(sa.TypeDecorator):
                """an integer the database wraps in a function (the mechanism of geometry-style types)"""

                impl = sa.Integer
                cache_ok = True

                def bind_expression(self, bindvalue):
                    return sa.func.abs(bindvalue)

            dtype = AbsInt
        t = sa.Table("t", md, C("id", I, primary_key=True, autoincrement=False), C("d", dtype))
    else:
        raise ValueError(sname)
    ins = sqlite_d.insert(t) if upsert else sa.insert(t)
    return eng, md, t, ins, it


def impl(c):
    import uuid as _uuid

    import sqlalchemy as sa
    from sqlalchemy import event, exc
    from sqlalchemy.engine import default as _default

    if not _ENV.get("ready"):
        impl_setup()
    if c["in"][0] == 100:
        return _impl_orm(c)
    if c["in"][0] == 101:
        return _impl_text(c)
    cfg, mask, sent_pos, rowspec, tuples, keys, fault, setup, post = c["in"]
    C = dict(zip(CFG_FIELDS, cfg))
    style, dopt, pstyle, upsert, extra, wo_ret, defonly, dfirst, retdef, conflict = setup
    sname = STYLES[style]
    n = len(tuples)
    named = PSTYLES[pstyle] == "named"
    numeric = PSTYLES[pstyle].startswith("numeric")
    eng, md, t, ins, it = _build(setup)
    d = eng.dialect
    d.supports_default_metavalue = bool(C["supports_default_metavalue"])
    d.supports_multivalues_insert = bool(C["supports_multivalues_insert"])
    d.insertmanyvalues_max_parameters = C["max_params"]

    vnames, xnames, order = _layout(sname, pstyle, extra, upsert, defonly, bool(C["is_returning"] and C["imv_sbo"]))
    pos = {nm: i for i, nm in enumerate(order)}
    if sname in ("sentinel", "csentinel", "uuid"):
        given = ["d"]
    else:
        given = list(vnames)

    def conv(nm, v):
        if sname == "composite" and nm == "b":
            return _uuid.UUID(int=v)
        return v

    params = [{nm: conv(nm, tp[pos[nm]]) for nm in given + xnames} for tp in tuples]
    if sname == "csentinel" and "sent" in pos:
        it["vals"] = iter([tp[pos["sent"]] for tp in tuples])
    elif sname == "uuid":
        it["vals"] = iter([tp[pos["id"]] for tp in tuples])

    stmt = ins
    if sname == "multibind":
        stmt = stmt.values(d=sa.func.coalesce(sa.bindparam("a"), sa.bindparam("b"), sa.bindparam("c")))
    if upsert == 1:
        stmt = stmt.on_conflict_do_update(index_elements=[t.c.id], set_={"d": stmt.excluded.d})
    elif upsert in (2, 3):
        stmt = stmt.on_conflict_do_update(index_elements=[t.c.id], set_={"d": sa.bindparam("newd")})
    elif upsert == 4:
        stmt = stmt.on_conflict_do_update(index_elements=[t.c.id], set_={"d": stmt.excluded.d + sa.bindparam("sfx")})
    if sname == "composite":
        pkcols = [t.c.a, t.c.b]
    elif sname == "none":
        pkcols = []
    else:
        pkcols = [t.c.id]
    dcol = (t.c.d + sa.bindparam("off")).label("dx") if extra else t.c.d
    if retdef:
        stmt = stmt.return_defaults(sort_by_parameter_order=bool(C["imv_sbo"]))
    elif C["is_returning"]:
        rcols = [dcol] + pkcols if dfirst else pkcols + [dcol]
        stmt = stmt.returning(*rcols, sort_by_parameter_order=bool(C["imv_sbo"]))

    state = {"base": 0, "cur": None}
    orig_fetch = _default.DefaultExecutionContext.fetchall_for_returning

    def patched_fetch(self, cursor):
        # SQLite returns the RETURNING rows of a multi-VALUES insert in VALUES order; emulate a
        # backend that does not: stable sort by the case's keys, then the injected fault
        rows = list(orig_fetch(self, cursor))
        base = state["base"]
        pairs = sorted(((base + j, r) for j, r in enumerate(rows)), key=lambda ir: keys[ir[0]] if ir[0] < len(keys) else 0)
        if fault:
            fk, fi, fv = fault
            out, dup = [], None
            for i, r in pairs:
                if i == fi:
                    if fk == 1:
                        continue
                    if fk == 2:
                        r = tuple(r[:-1]) + (("%032x" % fv) if isinstance(r[-1], str) else fv,)
                    if fk == 3:
                        dup = r
                out.append((i, r))
            if dup is not None:
                out.append((fi, dup))
            pairs = out
        state["base"] = base + len(state["cur"].batch)
        return [r for _, r in pairs]

    def canon_params(b, rowmode):
        rp = b.replaced_parameters
        if named:
            out = []
            for k, v in rp.items():
                m = re.match(r"^(.*)__(\d+)$", k)
                if m and not rowmode and m.group(1) in pos:
                    out.append([pos[m.group(1)], int(m.group(2)), _canon(v)])
                else:
                    out.append([pos[k], -1, _canon(v)])
            out.sort(key=lambda e: (e[1], e[0]))
            return out
        return [_canon(v) for v in rp]

    def canon_stmt(b, rowmode):
        if rowmode:
            return -1, [], []
        gs = _values_groups(b.replaced_statement)
        if gs is None:
            return -2, [], []
        numbers = []
        if numeric:
            for g in gs:
                numbers += [int(x) for x in re.findall(r"[:$](\d+)", g)]
        counters = []
        if C["embed_values_counter"]:
            counters = [int(g.rsplit(",", 1)[1]) for g in gs]
        return len(gs), numbers, counters

    status = 0
    rows_out, inserted, batches, table = [], [], [], []
    echo = [[], []]
    _default.DefaultExecutionContext.fetchall_for_returning = patched_fetch
    try:
        with eng.connect() as conn:
            md.create_all(conn)
            if conflict:
                conn.execute(t.insert(), [{"id": tp[pos["id"]], "d": 0} for tp in tuples])
            if C["max_params"] > 0:
                # let the database enforce the limit the dialect declares (as SQL Server does with 2100)
                import sqlite3

                conn.connection.dbapi_connection.setlimit(sqlite3.SQLITE_LIMIT_VARIABLE_NUMBER, C["max_params"])
            orig_deliver = d._deliver_insertmanyvalues_batches

            def deliver(connection, cursor, statement, parameters, gsi, context):
                compiled = context.compiled
                imv = compiled._insertmanyvalues
                state["base"] = 0
                in_values = set()
                for e in imv.insert_crud_params:
                    in_values.update(e[3])
                names = compiled.positiontup if compiled.positional else order
                echo[1] = [1 if nm in in_values else 0 for nm in names]
                echo[0] = [
                    int(imv.is_default_expr),
                    int(d.supports_default_metavalue),
                    int(d.supports_multivalues_insert),
                    int(bool(compiled._result_columns)),
                    int(imv.sentinel_columns is None),
                    int(imv.includes_upsert_behaviors),
                    int(imv.embed_values_counter),
                    int(imv.has_upsert_bound_parameters),
                    context.execution_options.get("insertmanyvalues_page_size", d.insertmanyvalues_page_size),
                    d.insertmanyvalues_max_parameters or 0,
                    len(compiled.bind_names),
                    len(imv.insert_crud_params),
                    int(bool(compiled.effective_returning)),
                    int(imv.sort_by_parameter_order),
                    imv.num_sentinel_columns,
                    int(imv.implicit_sentinel),
                    int(bool(imv.sentinel_param_keys)),
                    int(not compiled.positional),
                    imv.num_positional_params_counted if compiled.positional else 0,
                    int(bool(compiled._numeric_binds)),
                    sum(len(e[3]) for e in imv.insert_crud_params),
                ]
                for b in orig_deliver(connection, cursor, statement, parameters, gsi, context):
                    state["cur"] = b
                    rowmode = b.replaced_statement is statement
                    g, nums, ctrs = canon_stmt(b, rowmode)
                    batches.append([b.current_batch_size, b.batchnum, b.total_batches, int(b.rows_sorted),
                                    int(b.is_downgraded), canon_params(b, rowmode), g, nums, ctrs])
                    yield b

            d._deliver_insertmanyvalues_batches = deliver

            @event.listens_for(conn, "before_cursor_execute", retval=True)
            def _bce(conn_, cur, st, pa, ctx, many):
                return _rewrite_for_sqlite(st), pa

            try:
                res = conn.execution_options(insertmanyvalues_page_size=C["page_size"]).execute(stmt, params)
                if retdef:
                    pks = [tuple(r) for r in res.inserted_primary_key_rows]
                    held = {tuple(r[:-1]): r[-1] for r in conn.execute(sa.select(*pkcols, t.c.d)).all()}
                    rows_out = [[_canon(v) for v in pk] + [_canon(held.get(pk))] for pk in pks]
                elif C["is_returning"]:
                    rows_out = [[_canon(v) for v in r] for r in res.all()]
            except ZeroDivisionError:
                status = 1
            except IndexError:
                status = 2
            except AssertionError:
                status = 3
            except exc.InvalidRequestError as e:
                if "did not produce correct number of rows" in str(e):
                    status = 4
                elif "Can't match sentinel values" in str(e):
                    status = 5
                else:
                    status = 9
            except exc.DBAPIError:
                if C["page_size"] < 0:
                    status = 6
                elif n == 0:
                    pass  # a single all-defaults INSERT the table refuses (NOT NULL key): nothing inserted
                else:
                    status = 9  # the database rejected a generated statement
            except Exception:
                status = 9  # any other exception out of the executemany
            if C["page_size"] < 0 and status in (2, 6):
                status, batches[:] = 6, []
            else:
                # what is in the table now (same transaction), in insertion order
                allrows = conn.execute(sa.select(t.c.d).order_by(sa.text("rowid"))).all()
                if post:
                    table = [[_canon(v) for v in r] for r in conn.execute(sa.select(t.c.id, t.c.d).order_by(t.c.id)).all()]
                    if status != 0:
                        table = []
                if sname == "clientpk":
                    iix = {tp[pos["id"]]: i for i, tp in enumerate(tuples)}
                    inserted = sorted(iix.get(r[0], -1) for r in conn.execute(sa.select(t.c.id)).all())
                elif defonly:
                    inserted = list(range(len(allrows)))
                else:
                    dix = {tp[pos["a" if sname == "multibind" else "d"]]: i for i, tp in enumerate(tuples)}
                    inserted = sorted(dix.get(r[0], -1) for r in allrows)
            conn.rollback()
    finally:
        _default.DefaultExecutionContext.fetchall_for_returning = orig_fetch
        eng.dispose()
    return [echo[0], echo[1], batches, status, rows_out, inserted, table]


def _impl_text(c):
    """statements whose rewriting depends on the TEXT of the VALUES clause (oracle only, not modelled):
    in = [101, variant, pstyle, page, ds]   obs = [status, sorted rows]
    0: a literal % inside VALUES   INSERT INTO t (d) VALUES (:a % 1000)
    1: the text of the VALUES group occurs a second time   VALUES (?, ?) RETURNING id, coalesce(?, ?)
    2: one bind name is a prefix of another inside one VALUES element   VALUES (coalesce(:p1, :p10))"""
    import sqlalchemy as sa

    if not _ENV.get("ready"):
        impl_setup()
    _, variant, pstyle, page, ds = c["in"]
    ps = PSTYLES[pstyle]
    url = {"qmark": "sqlite://", "named": "sqlite://", "numeric": "sqlite+pysqlite_numeric://",
           "numeric_dollar": "sqlite+pysqlite_dollar://"}[ps]
    eng = sa.create_engine(url, insertmanyvalues_page_size=page, **({"paramstyle": "named"} if ps == "named" else {}))
    md = sa.MetaData()
    I = sa.Integer
    if variant == 1:
        t = sa.Table("t", md, sa.Column("id", I, primary_key=True, autoincrement=False), sa.Column("d", I))
        stmt = t.insert().returning(t.c.id, sa.func.coalesce(sa.bindparam("x", None, type_=I), sa.bindparam("y", 5, type_=I)))
        params = [{"id": i + 1, "d": d} for i, d in enumerate(ds)]
    else:
        t = sa.Table("t", md, sa.Column("id", I, primary_key=True), sa.Column("d", I))
        if variant == 0:
            stmt = t.insert().values(d=sa.bindparam("a") % 1000).returning(t.c.id, t.c.d)
            params = [{"a": d} for d in ds]
        else:
            stmt = t.insert().values(d=sa.func.coalesce(sa.bindparam("p1"), sa.bindparam("p10"))).returning(t.c.id, t.c.d)
            params = [{"p1": None, "p10": d} for d in ds]
    status, rows = 0, []
    try:
        with eng.connect() as conn:
            md.create_all(conn)
            try:
                rows = sorted([_canon(v) for v in r] for r in conn.execute(stmt, params).all())
            except Exception:
                status = 9
            conn.rollback()
    finally:
        eng.dispose()
    return [status, rows]


def _oracle_text(c, obs):
    _, variant, pstyle, page, ds = c["in"]
    status, rows = obs
    what = ["a literal % inside VALUES", "VALUES text occurring twice", "bind name that is a prefix of another"][variant]
    if status != 0:
        return "statement text (%s, %s): exception instead of %d returned rows" % (what, PSTYLES[pstyle], len(ds))
    want = sorted([i + 1, 5 if variant == 1 else d % 1000] for i, d in enumerate(ds))
    if rows != want:
        return "statement text (%s, %s): returned rows %s, one per parameter set is %s" % (what, PSTYLES[pstyle], rows, want)
    return None


def _orm_groups(ks):
    import itertools

    return [len(list(g)) for _, g in itertools.groupby(ks)]


def _impl_orm(c):
    """ORM bulk insert: session.execute(insert(Item).returning(..), [dicts]) with differing key sets.
    in = [100, sbo, keysets, names, [page, dopt, pstyle, entities]] ; key set bit 0: qty given, bit 1: note given
    obs = [rows [[id, name]..] (without sbo: each group's segment sorted by name), table [[id, name]..]]"""
    import sqlalchemy as sa
    from sqlalchemy import orm
    from sqlalchemy.engine import default as _default
    from sqlalchemy.sql.compiler import InsertmanyvaluesSentinelOpts as O

    if not _ENV.get("ready"):
        impl_setup()
    _, sbo, ks, names, (page, dopt, pstyle, ent) = c["in"]
    ps = PSTYLES[pstyle]
    url = {"qmark": "sqlite://", "named": "sqlite://", "numeric": "sqlite+pysqlite_numeric://",
           "numeric_dollar": "sqlite+pysqlite_dollar://"}[ps]
    kw = {"paramstyle": "named"} if ps == "named" else {}
    eng = sa.create_engine(url, insertmanyvalues_page_size=page, **kw)
    if dopt == 1:
        eng.dialect.insertmanyvalues_implicit_sentinel = O.AUTOINCREMENT

    class Base(orm.DeclarativeBase):
        pass

    class Item(Base):
        __tablename__ = "item"
        id = sa.Column(sa.Integer, primary_key=True)
        name = sa.Column(sa.Integer, nullable=False)
        qty = sa.Column(sa.Integer)
        note = sa.Column(sa.Integer)

    params = []
    for k, nm in zip(ks, names):
        d = {"name": nm}
        if k & 1:
            d["qty"] = nm + 1
        if k & 2:
            d["note"] = nm + 2
        params.append(d)
    orig_fetch = _default.DefaultExecutionContext.fetchall_for_returning

    def patched_fetch(self, cursor):
        return list(reversed(list(orig_fetch(self, cursor))))  # a backend returning rows out of order

    _default.DefaultExecutionContext.fetchall_for_returning = patched_fetch
    try:
        Base.metadata.create_all(eng)
        with orm.Session(eng) as session:
            if ent:
                res = session.scalars(sa.insert(Item).returning(Item, sort_by_parameter_order=bool(sbo)), params)
                rows = [[o.id, o.name] for o in res]
            else:
                res = session.execute(sa.insert(Item).returning(Item.id, Item.name, sort_by_parameter_order=bool(sbo)), params)
                rows = [[r.id, r.name] for r in res.all()]
            table = [[r.id, r.name] for r in session.execute(sa.select(Item.id, Item.name).order_by(Item.id)).all()]
            session.rollback()
    finally:
        _default.DefaultExecutionContext.fetchall_for_returning = orig_fetch
        eng.dispose()
    if not sbo:
        out, i = [], 0
        for size in _orm_groups(ks):
            out += sorted(rows[i: i + size], key=lambda r: r[1])
            i += size
        rows = out + rows[i:]
    return [rows, table]


def _oracle_orm(c, obs):
    _, sbo, ks, names, _setup = c["in"]
    rows, table = obs
    held = {r[0]: r[1] for r in table}
    if sorted(held.values()) != sorted(names) or len(table) != len(names):
        return "ORM bulk insert: table holds %s, expected each of %s once" % (sorted(held.values()), sorted(names))
    if len(rows) != len(names):
        return "ORM bulk insert: %d rows returned for %d parameter sets" % (len(rows), len(names))
    for r in rows:
        if held.get(r[0]) != r[1]:
            return "ORM bulk insert: returned row %s does not match the stored row of its key" % (r,)
    if sbo:
        got = [r[1] for r in rows]
        if got != list(names):
            return "ORM bulk insert: the n-th returned row does not belong to the n-th parameter set: got %s, expected %s" % (
                got, list(names))
    elif sorted(r[1] for r in rows) != sorted(names):
        return "ORM bulk insert: returned rows are not one per parameter set"
    return None


def make_orm_case(rng, ks, sbo=1, page=1000, dopt=0, pstyle=0, ent=0, kind="orm"):
    names = rng.sample(range(100, 100 + 4 * len(ks)), len(ks))
    return {"in": [100, int(sbo), list(ks), names, [page, dopt, pstyle, ent]], "kind": kind}


# ------------------------------------------------------------------------------------------------
# the property itself, on the implementation's observation
def _expected_rows(c):
    cfg, mask, sent_pos, rowspec, tuples, keys, fault, setup, post = c["in"]
    nsc = _cfg(c)["num_sentinel"]
    spec = rowspec[: len(rowspec) - nsc] if nsc else rowspec
    out = []
    for i, tp in enumerate(tuples):
        ext = [v for v, m in zip(tp, mask) if not m]
        row = []
        for s in spec:
            if s[0] == 0:
                row.append(i + 1)
            elif s[0] == 1:
                row.append(tp[s[1]])
            elif s[0] == 2:
                row.append(tp[s[1]] + ext[0])  # evaluated with the parameter set's OWN value
            elif s[0] == 4:
                row.append(ext[0])  # SET d = :newd with the parameter set's OWN value
            else:
                row.append(NULL)
        out.append(row)
    return out


def oracle(c, obs):
    if c["in"][0] == 100:
        return _oracle_orm(c, obs)
    if c["in"][0] == 101:
        return _oracle_text(c, obs)
    cfg = _cfg(c)
    C = c["in"]
    tuples, fault, sent_pos = C[4], C[6], C[2]
    n = len(tuples)
    echo, emask, batches, status, rows, inserted, table = obs
    if fault:
        return None  # the harness made the database misbehave: outside the property
    if n == 0:
        if inserted or rows:
            return "executemany with 0 parameter sets inserted %d row(s) and returned %d" % (len(inserted), len(rows))
        return None
    if cfg["page_size"] <= 0 or (cfg["max_params"] and cfg["total_params"] > cfg["max_params"]):
        return None  # outside the property: page size < 1 / a single row already exceeds the parameter limit
    if status in (1, 6):
        return "status %d with page_size %d" % (status, cfg["page_size"])
    if status in (4, 5):
        sents = [tuple(tp[p] for p in sent_pos) for tp in tuples]
        if len(set(sents)) < len(sents):
            return None  # duplicate client-side sentinel values: the documented error
        return "InvalidRequestError (guard %d) although the database returned every row and sentinels are distinct" % status
    if status != 0:
        return "internal error (status %d) instead of %d returned rows" % (status, n)
    if sorted(inserted) != list(range(n)):
        return "table holds parameter sets %s, expected each of 0..%d once" % (inserted, n - 1)
    if cfg["is_returning"]:
        want = _expected_rows(c)
        if len(rows) != n:
            return "%d rows returned for %d parameter sets" % (len(rows), n)
        if cfg["imv_sbo"]:
            for i, (r, w) in enumerate(zip(rows, want)):
                if r != w:
                    return "returned row %d is %s, the row of parameter set %d is %s" % (i, r, i, w)
        elif sorted(rows) != sorted(want):
            return "returned rows are not one per parameter set (each with its own values): %s, expected %s" % (
                sorted(rows), sorted(want))
        if C[8]:  # the table after an upsert over existing rows = the per-row fold
            fold = sorted([w[0], w[1]] for w in want)
            if table != fold:
                return "table holds %s, applying the parameter sets one by one gives %s" % (table, fold)
    return None


def match_finding(c, what):
    if c["in"][0] == 100:
        return None
    if c["in"][0] == 101:
        variant, pstyle = c["in"][1], PSTYLES[c["in"][2]]
        if variant == 0 and pstyle.startswith("numeric"):
            return "C12-numeric-percent-in-values"
        if variant == 1 and pstyle == "qmark":
            return "C12-values-text-replaced-elsewhere"
        if variant == 2 and pstyle == "named":
            return "C12-named-placeholder-prefix"
        return None
    C = c["in"]
    cfg = _cfg(c)
    setup = C[7]
    if len(C[4]) == 0 and what.startswith("executemany with 0 parameter sets"):
        return "C12-empty-list-inserts-default-row"
    if STYLES[setup[0]] == "omitpk" and cfg["imv_sbo"] and cfg["is_returning"] and "internal error (status 3)" in what:
        return "C12-omitted-pk-assert"
    if setup[4] == 2 and what.startswith("returned row"):
        return "C12-nonvalues-bind"
    if STYLES[setup[0]] == "multibind" and cfg["max_params"] and "internal error (status 9)" in what:
        return "C12-clamp-counts-elements"
    return None


LEVEL_TEXT = (
    "Machine-checked proof (Coq) over the Gallina transcription of the two "
    "_deliver_insertmanyvalues_batches generators and their consumer loop: for every row count, every "
    "page size >= 1, every mode / paramstyle / sentinel configuration and every order in which the "
    "database returns the rows of each statement, every parameter set is sent exactly once and the n-th "
    "returned row is the row of the n-th parameter set (guarded by: row-at-a-time mode, or parameters "
    "outside VALUES do not differ per row - the exclusion is proved to be a real defect and replayed as a "
    "known finding; sentinel columns have client-side values or implicit support - what the compiler "
    "guarantees since 56a4cbe); the ORM bulk insert splice of per-key-set "
    "executemany results is in parameter order for every sequence of key sets; mode decision safety, batch partition, "
    "total_batches, max_params clamp, positional / numeric / named parameter expansion, the two merge "
    "guards. The tie to the code: pinned normalised source + decision/arithmetic expressions re-extracted "
    "from the AST and proved equal to the model's on every run + behavioural correspondence on SQLite "
    "with adversarially permuted RETURNING rows."
)
LEVEL_NOTE = (
    "Trusted: Coq kernel; the hand transcription (checked by source pin, the generated C12_gen.v and the "
    "correspondence); the database hypothesis (one row per VALUES row in any order; increasing "
    "autoincrement values in VALUES order for implicit sentinels - validated on SQLite only); the SQL "
    "text of the rewritten statement is observed by the harness, not modelled. PostgreSQL / MariaDB / "
    "MSSQL are not executed: their code paths (implicit sentinel, INSERT..SELECT counter form) run on "
    "SQLite with the dialect flags switched in the harness process. No axioms (Print Assumptions: closed "
    "under the global context)."
)
TECHNIQUE = (
    "Coq proof by induction over fuel / batch list, permutation and sortedness arguments with the database "
    "as a universally quantified function; AST expression translation with per-run equality lemmas; "
    "small-scope exhaustive + random model/impl correspondence with a patched fetchall_for_returning"
)
