"""C07 - IN / NOT IN with expanding parameters follows SQL semantics."""
import itertools
import re

ID = "C07"
LEVEL = "proof"
PROPS = "props/C07.v"
RUNNER = ("SAV.sql.InListRun", "run_case")
STATIC_MODULES = ["SAV.sql.InListRun"]
RULE = (
    "scalar IN/NOT IN (and ~ of them): ALL 121 lists of length 0..4 over {NULL,1,2} x {IN, NOT IN} x "
    "{column value, WHERE, CASE WHEN} x {bound through the engine, literal_binds} on SQLite, every case "
    "evaluated for all 9 rows (x in {NULL,1,2}) x (y in {NULL,'a','b'}); the same lists on the default "
    "dialect's rendering (NULL) AND (1 != 1) executed on sqlite3; text() form with expand_op None; "
    "tuple IN of arity 2: all lists of length 0..2 over the 9 tuples; AND / OR contexts with further "
    "bound parameters; re-binding: sequences of 2..5 lists of different lengths through ONE engine's "
    "compiled cache and through one render_postcompile'd Compiled; random longer lists, mysql/pg "
    "renderings. non-trivial = some list has >= 1 element, or is empty with a NULL left operand row "
    "(always the case: every case is evaluated on rows with NULL operands)"
)
TRUSTED = [
    "hand-written Gallina transcription (token level) of _in_impl/_post_coercion/_negate_in_binary, "
    "visit_not_in_op_binary, visit_empty_set_op_expr/visit_empty_set_expr (base, sqlite, postgresql, mysql), "
    "_literal_execute_expanding_parameter(_literal_binds) and _process_parameters_for_postcompile; pinned "
    "by translate/fingerprint.py and compared token by token with the implementation on every case",
    "spec side: a parser/evaluator for the rendered fragment of SQL (precedence OR < AND < NOT < IN,=) and "
    "SQL's definition of IN over row values; validated against SQLite 3 on every case",
    "the regex tokenizer of specs/c07.py",
]
ASSUMPTIONS = [
    "one expanding parameter per statement; values are integers, strings or NULL; types without bind_expression / "
    "bind casts (PostgreSQL typed casts '::INTEGER' are not modelled)",
    "PostgreSQL / MySQL execute the rendered fragment like SQLite does (standard SQL precedence and 3VL)",
]
ANCHORS = [
    ("lib/sqlalchemy/sql/default_comparator.py", "_in_impl"),
    ("lib/sqlalchemy/sql/coercions.py", "InElementImpl._post_coercion"),
    ("lib/sqlalchemy/sql/elements.py", "BindParameter._negate_in_binary"),
    ("lib/sqlalchemy/sql/elements.py", "BinaryExpression._negate"),
    ("lib/sqlalchemy/sql/compiler.py", "SQLCompiler.visit_not_in_op_binary"),
    ("lib/sqlalchemy/sql/compiler.py", "SQLCompiler.visit_empty_set_op_expr"),
    ("lib/sqlalchemy/sql/compiler.py", "SQLCompiler.visit_empty_set_expr"),
    ("lib/sqlalchemy/sql/compiler.py", "SQLCompiler._literal_execute_expanding_parameter_literal_binds"),
    ("lib/sqlalchemy/sql/compiler.py", "SQLCompiler._literal_execute_expanding_parameter"),
    ("lib/sqlalchemy/sql/compiler.py", "SQLCompiler._process_parameters_for_postcompile"),
    ("lib/sqlalchemy/dialects/sqlite/base.py", "SQLiteCompiler.visit_empty_set_op_expr"),
    ("lib/sqlalchemy/dialects/sqlite/base.py", "SQLiteCompiler.visit_empty_set_expr"),
    ("lib/sqlalchemy/dialects/postgresql/base.py", "PGCompiler.visit_empty_set_expr"),
    ("lib/sqlalchemy/dialects/mysql/base.py", "MySQLCompiler.visit_empty_set_expr"),
]


def translate(repo, outdir):
    from translate import fingerprint

    fingerprint.check(repo, ANCHORS, "C07")
    return []


# ------------------------------------------------------------------ encodings
XS = [None, 1, 2]
YS = [None, "a", "b"]
ROWS = [(i + 1, x, y) for i, (x, y) in enumerate(itertools.product(XS, YS))]


def enc_sv(v):
    if v is None:
        return [0]
    if isinstance(v, bool):
        return [1, int(v)]
    if isinstance(v, int):
        return [1, v]
    return [2] + [ord(ch) for ch in v]


def dec_sv(t):
    if t[0] == 0:
        return None
    if t[0] == 1:
        return t[1]
    return "".join(chr(ch) for ch in t[1:])


def enc_val(v):
    if isinstance(v, tuple):
        return [1, [enc_sv(e) for e in v]]
    return [0, enc_sv(v)]


def dec_val(t):
    if t[0] == 1:
        return tuple(dec_sv(e) for e in t[1])
    return dec_sv(t[1])


ENC_ROWS = [[enc_sv(i), enc_sv(x), enc_sv(y)] for i, x, y in ROWS]
LHS_X, LHS_Y, LHS_XY = [0, 1], [0, 2], [1, [1, 2]]


def mk(way, d, lhs, expr, pos, mode, lists, kind):
    return {
        "in": [way, d, lhs, expr, pos, mode, [[enc_val(v) for v in l] for l in lists], 0],  # 0 = the standard table
        "kind": kind,
    }


def _lists(dom, maxlen):
    for n in range(maxlen + 1):
        for l in itertools.product(dom, repeat=n):
            yield list(l)


POS_MODES = [([0], 1), ([0], 2), ([1], 2)]


def gen_cases(rng, tier):
    cases = []
    tuples = list(itertools.product(XS, YS))
    # --- exhaustive scalar truth table on SQLite: engine-bound and literal_binds
    for l in _lists(XS, 4):
        for op in (0, 1):
            for pos, mode in POS_MODES:
                cases.append(mk(0, 0, LHS_X, [0, op, 0], pos, mode, [l], "sqlite-bound"))
                cases.append(mk(1, 0, LHS_X, [0, op, 0], pos, mode, [l], "sqlite-literal"))
            # default dialect: "NULL) AND (1 != 1" / "NULL) OR (1 = 1" forms, executed on sqlite3
            cases.append(mk(0, 1, LHS_X, [0, op, 0], [0], 1, [l], "default-bound"))
    # --- negated forms (~), text() form, string column
    for l in _lists(XS, 3):
        for op in (0, 1):
            for nneg in (1, 2):
                d = rng.choice([0, 1])
                way = rng.choice([0, 1])
                cases.append(mk(way, d, LHS_X, [0, op, nneg], [0], 1, [l], "negated"))
            cases.append(mk(0, 0, LHS_X, [2, op, 0], [0], rng.choice([1, 2]), [l], "text-sqlite"))
    for l in _lists(YS, 2):
        for op in (0, 1):
            cases.append(mk(rng.choice([0, 1]), rng.choice([0, 1]), LHS_Y, [0, op, 0], [0], 1, [l], "string-column"))
    # --- tuples of arity 2, all lists of length 0..2 over the 9 tuples
    for l in _lists(tuples, 2):
        for op in (0, 1):
            way = rng.choice([0, 1])
            cases.append(mk(way, 0, LHS_XY, [0, op, 0], [0], 1, [l], "tuple-sqlite"))
            if len(l) <= 1 or rng.random() < 0.15:
                cases.append(mk(rng.choice([0, 1]), 1, LHS_XY, [0, op, 0], [0], 1, [l], "tuple-default"))
    # --- contexts with other bound parameters (AND / OR), all dialect styles
    n_ctx = 500 if tier == "thorough" else 220
    for _ in range(n_ctx):
        tup = rng.random() < 0.3
        dom = tuples if tup else XS
        l = [rng.choice(dom) for _ in range(rng.choice([0, 0, 1, 2, 3, 5]))]
        pos = rng.choice([[2, rng.choice([-1, 2, 5]), rng.choice([-2, 9, 5])], [3, rng.choice([-1, 1, 4])]])
        d = rng.choice([0, 0, 1, 3])
        way = rng.choice([0, 0, 1])
        cases.append(mk(way, d, LHS_XY if tup else LHS_X, [0, rng.choice([0, 1]), rng.choice([0, 0, 1])], pos, 2, [l], "context"))
    # --- re-binding one compiled statement with lists of different lengths
    n_re = 1500 if tier == "thorough" else 350
    for _ in range(n_re):
        tup = rng.random() < 0.3
        dom = tuples if tup else XS
        lists = [[rng.choice(dom) for _ in range(rng.choice([0, 0, 1, 2, 3, 4, 6]))] for _ in range(rng.randint(2, 5))]
        d = rng.choice([0, 0, 0, 1, 3])
        way = rng.choice([2, 2, 3])
        pos, mode = rng.choice(POS_MODES + [([2, -1, rng.choice([-2, 4])], 2), ([3, rng.choice([-1, 7])], 2)])
        # (a TextClause is not grouped by case(): PosCase describes the grouped rendering only)
        ctor = 2 if (way == 2 and not tup and pos[0] != 1 and rng.random() < 0.25) else 0
        nneg = 0 if ctor == 2 else rng.choice([0, 0, 1])
        cases.append(mk(way, d, LHS_XY if tup else LHS_X, [ctor, rng.choice([0, 1]), nneg], pos, mode, lists, "rebind"))
    # --- other dialect renderings: mysql (format), pg / mysql / default text() form with expand_op None
    for l in _lists(XS, 2):
        for op in (0, 1):
            cases.append(mk(0, 3, LHS_X, [0, op, 0], [0], 1, [l], "mysql"))
            for d in (1, 2, 3):
                cases.append(mk(0, d, LHS_X, [2, op, 0], [0], 1, [l], "text-other"))
    for l in _lists(tuples, 1):
        for op in (0, 1):
            cases.append(mk(0, 3, LHS_XY, [0, op, 0], [0], 1, [l], "mysql"))
            if l:  # an untyped operand has arity 1 for the empty-set expression: tuples are out of its reach
                cases.append(mk(0, rng.choice([2, 3]), LHS_XY, [2, op, 0], [0], 1, [l], "text-other"))
    # --- untyped left operand (literal_column): NullType parameter
    for l in _lists(XS, 2):
        cases.append(mk(0, rng.choice([0, 1]), LHS_X, [1, rng.choice([0, 1]), 0], [0], 1, [l], "nulltype"))
    for l in _lists(tuples, 1):
        if l:
            cases.append(mk(0, 0, LHS_XY, [1, rng.choice([0, 1]), 0], [0], 1, [l], "nulltype"))
            if len(cases) % 3 == 0:  # literal rendering of tuples for a NullType parameter: AttributeError (known)
                cases.append(mk(1, 0, LHS_XY, [1, rng.choice([0, 1]), 0], [0], 1, [l], "nulltype"))
    # --- long lists (around the powers of two): every value must be bound, none added
    for n in (15, 16, 17, 18, 31, 32, 33, 34, 47, 63, 64, 65, 70):
        for op in (0, 1):
            l = [rng.choice([1, 3, -1, 4]) for _ in range(n)]       # never 2: the row x = 2 must be FALSE / TRUE, not NULL
            cases.append(mk(0, 0, LHS_X, [0, op, 0], [0], 1, [l], "long"))
            cases.append(mk(0, 1, LHS_X, [0, op, rng.choice([0, 1])], [0], 1, [l], "long"))
            cases.append(mk(2, 0, LHS_X, [0, op, 0], [0], 2, [l, l[: n // 2], l], "long"))
    # --- oracle-only families (the model has one expanding parameter per statement)
    #  8: one cached statement "x IN :p (bound)  AND/OR  y [NOT] IN :q (literal_execute)" executed for a
    #     sequence of (p, q), lengths repeating with different values
    for _ in range(400 if tier == "thorough" else 70):
        lp, lq = rng.choice([1, 2, 3]), rng.choice([0, 1, 2])
        seq = []
        for _ in range(rng.randint(2, 5)):
            if rng.random() < 0.25:
                lp, lq = rng.choice([0, 1, 2, 3]), rng.choice([0, 1, 2])
            seq.append([[enc_sv(rng.choice(XS)) for _ in range(lp)], [enc_sv(rng.choice(YS)) for _ in range(lq)]])
        cases.append({"in": [8, rng.choice([0, 1]), rng.choice([0, 1]), seq], "kind": "mixed-literal-execute", "model": False})
    #  5: columns whose type has a BIND PROCESSOR (TypeDecorator, DateTime): one cached statement re-executed
    #     with lists of growing / shrinking lengths (also empty); every element must be converted
    for _ in range(300 if tier == "thorough" else 60):
        col = rng.choice([0, 1])
        dom = ["a", "b", "c", "d", None] if col == 0 else [1, 2, 3, 4, None]
        lens = [rng.choice([0, 1, 1, 2, 3, 4, 6]) for _ in range(rng.randint(3, 6))]
        if rng.random() < 0.5:
            lens.sort()
        seq = [[enc_sv(rng.choice(dom)) for _ in range(n)] for n in lens]
        cases.append({"in": [5, col, rng.choice([0, 1]), rng.choice([0, 1]), seq], "kind": "bind-processor-rebind", "model": False})
    #  7: ONE expanding bindparam used by an IN and a NOT IN
    for vals in ([], [1], [None], [1, 2]):
        for order in (0, 1):
            for d in (0, 1):
                cases.append({"in": [7, order, d, [enc_sv(v) for v in vals]], "kind": "shared-param", "model": False})
    #  6: a column type with bind_expression (lower(..))
    for vals in ([], ["A"], ["a", None]):
        for op in (0, 1):
            for d in (0, 1):
                cases.append({"in": [6, d, op, [enc_sv(v) for v in vals]], "kind": "bind-expression", "model": False})
    # --- random longer lists
    n_rand = 1200 if tier == "thorough" else 150
    for _ in range(n_rand):
        tup = rng.random() < 0.4
        dom = tuples if tup else XS + [3, -1]
        l = [rng.choice(dom) for _ in range(rng.randint(3, 12))]
        pos, mode = rng.choice(POS_MODES)
        cases.append(mk(rng.choice([0, 1]), rng.choice([0, 0, 1]), LHS_XY if tup else LHS_X,
                        [0, rng.choice([0, 1]), rng.choice([0, 0, 1])], pos, mode, [l], "random"))
    return cases


def nontrivial(c):
    return c["in"][0] >= 5 or len(c["in"][6]) >= 1


# ------------------------------------------------------------------ implementation side
_S = {}


def impl_setup():
    import sqlite3
    from sqlalchemy import Column, Integer, MetaData, String, Table
    from sqlalchemy.dialects import mysql, postgresql, sqlite
    from sqlalchemy.engine import default

    md = MetaData()
    _S["t"] = Table("t", md, Column("id", Integer, primary_key=True), Column("x", Integer), Column("y", String))
    _S["md"] = md
    _S["dialects"] = {0: sqlite.dialect(), 1: default.DefaultDialect(), 2: postgresql.dialect(), 3: mysql.dialect()}
    raw = sqlite3.connect(":memory:")
    raw.execute("CREATE TABLE t (id INTEGER PRIMARY KEY, x INTEGER, y VARCHAR)")
    raw.executemany("INSERT INTO t VALUES (?, ?, ?)", ROWS)
    _S["raw"] = raw
    _S["engine"] = _new_engine()
    _S["facts"] = {"rebind_engine_cases": 0, "rebind_engine_single_cache_entry": 0}


def _new_engine():
    from sqlalchemy import create_engine, event

    e = create_engine("sqlite://")
    _S["md"].create_all(e)
    with e.begin() as conn:
        conn.execute(_S["t"].insert(), [dict(id=i, x=x, y=y) for i, x, y in ROWS])
    log = []

    @event.listens_for(e, "before_cursor_execute")
    def _bce(conn, cursor, statement, parameters, context, executemany):
        log.append((statement, parameters))

    e._verif_log = log
    return e


def impl_facts():
    return _S.get("facts", {})


_TOK = re.compile(
    r"\s*(?:(__\[POSTCOMPILE_\w+\])|'((?:[^']|'')*)'|(-?\d+)|:(\w+)|%\((\w+)\)s|(\?|%s)|(!=|=|\(|\)|,)|([A-Za-z_][\w.]*))"
)
_KW = {"IN": 3, "NOT": 4, "AND": 5, "OR": 6, "NULL": 7, "SELECT": 10, "FROM": 11, "WHERE": 12, "VALUES": 13}
_PUNCT = {"(": 0, ")": 1, ",": 2, "=": 8, "!=": 9}
_COLS = {"t.id": 0, "id": 0, "t.x": 1, "x": 1, "t.y": 2, "y": 2}
_WORDS = {"CAST": 0, "AS": 1, "as": 1, "INTEGER": 2, "_empty_set": 3}


def _name_code(name, pname):
    """bind name -> pname code of the model: expanding parameter P -> [0]; P_i -> [2,i,0];
    P_i_j -> [2,i,j]; id_n -> [1,n]"""
    if name == pname:
        return [0]
    if pname and name.startswith(pname + "_"):
        parts = name[len(pname) + 1:].split("_")
        if all(p.isdigit() for p in parts) and len(parts) in (1, 2):
            return [2, int(parts[0]), int(parts[1]) if len(parts) == 2 else 0]
    m = re.fullmatch(r"id_(\d+)", name)
    if m:
        return [1, int(m.group(1))]
    raise ValueError("unexpected bind name %r (expanding parameter %r)" % (name, pname))


def tokenize(sql, pname):
    out = []
    pos = 0
    sql = sql.strip()
    while pos < len(sql):
        m = _TOK.match(sql, pos)
        if not m or m.end() == pos:
            raise ValueError("cannot tokenize %r at %d" % (sql, pos))
        pos = m.end()
        post, s, num, named, pyf, q, punct, word = m.groups()
        if post is not None:
            out.append([20])
        elif s is not None:
            out.append([15] + [ord(ch) for ch in s.replace("''", "'")])
        elif num is not None:
            out.append([14, int(num)])
        elif named is not None or pyf is not None:
            code = _name_code(named or pyf, pname)
            out.append([18, code[1], code[2]] if code[0] == 2 else [19, code[1]])
        elif q is not None:
            out.append([17])
        elif punct is not None:
            out.append([_PUNCT[punct]])
        elif word.upper() in _KW and word.upper() == word:
            out.append([_KW[word]])
        elif word in _COLS:
            out.append([16, _COLS[word]])
        elif word in _WORDS:
            out.append([21, _WORDS[word]])
        elif re.fullmatch(r"_in_\d+", word):
            out.append([21, 10 + int(word[4:])])
        else:
            raise ValueError("unknown word %r in %r" % (word, sql))
    return out


def _args_tree(args, pname):
    if isinstance(args, dict):
        return [[_name_code(k, pname), enc_sv(v)] for k, v in args.items()]
    return [[[9], enc_sv(v)] for v in args]


_EXC = {"NotImplementedError": 1, "KeyError": 2, "IndexError": 3, "TypeError": 4, "AttributeError": 5}


def _build(lhs, expr, vals, pos):
    """the SQLAlchemy expression for the whole modelled region; returns (whole, pred, extra_params)"""
    from sqlalchemy import and_, bindparam, case, literal_column, or_, text, tuple_

    t = _S["t"]
    ctor, op, nneg = expr
    cols = {0: t.c.id, 1: t.c.x, 2: t.c.y}
    extra = {}
    if ctor == 2:
        left = "t.%s" % cols[lhs[1]].name if lhs[0] == 0 else "(%s)" % ", ".join("t.%s" % cols[c].name for c in lhs[1])
        pred = text("%s %s :q" % (left, "IN" if op == 0 else "NOT IN")).bindparams(bindparam("q", expanding=True))
        extra = {"q": vals}
    else:
        if ctor == 0:
            left = cols[lhs[1]] if lhs[0] == 0 else tuple_(*[cols[c] for c in lhs[1]])
        else:
            # unqualified: a bind name derived from "t.x" needs escaping, which construct_expanded_state
            # does not survive (KeyError; outside this property)
            left = literal_column(cols[lhs[1]].name) if lhs[0] == 0 else literal_column(
                "(%s)" % ", ".join(cols[c].name for c in lhs[1]))
        pred = left.in_(vals) if op == 0 else left.not_in(vals)
        for _ in range(nneg):
            pred = ~pred
    if pos[0] == 0:
        whole = pred
    elif pos[0] == 1:
        whole = case((pred, literal_column("1")), else_=literal_column("0"))
    elif pos[0] == 2:
        whole = and_(t.c.id != pos[1], pred, t.c.id != pos[2])
    else:
        whole = or_(t.c.id == pos[1], pred)
    return whole, pred, extra


def _region(sql, pos):
    if pos[0] == 1:
        m = re.search(r"CASE WHEN (.*) THEN 1 ELSE 0 END", sql, re.S)
        if not m:
            raise ValueError("no CASE region in %r" % sql)
        return m.group(1)
    return sql


def _run_sql(sql_expr, args, pos, mode, ctor):
    """execute the rendered expression on sqlite3 for all rows; returns the truth list"""
    import sqlite3

    if mode == 0:
        return []
    q = re.sub(r"%\((\w+)\)s", r":\1", sql_expr).replace("%s", "?")
    if mode == 1 or pos[0] == 1:
        full = "SELECT t.id, %s AS r FROM t ORDER BY t.id" % q
    else:
        full = "SELECT t.id, 1 FROM t WHERE %s ORDER BY t.id" % q
    try:
        got = dict(_S["raw"].execute(full, args).fetchall())
    except (sqlite3.OperationalError, sqlite3.ProgrammingError):
        return [9]
    return _truths(got, pos, mode)


def _truths(got, pos, mode):
    out = []
    for i, _, _ in ROWS:
        if mode == 1:
            v = got.get(i)
            out.append(2 if v is None else (1 if v else 0))
        elif pos[0] == 1:
            out.append(1 if got.get(i) == 1 else 0)
        else:
            out.append(1 if i in got else 0)
    return out


def _expanding_name(comp):
    names = sorted({n for b, n in comp.bind_names.items() if b.expanding})
    if len(names) != 1:
        raise ValueError("expected one expanding parameter, got %r" % names)
    return names[0]


def _engine_exec(engine, lhs, expr, vals, pos, mode, cached):
    """run through a real Engine (SQLite); returns one observation"""
    from sqlalchemy import exc, select

    t = _S["t"]
    whole, pred, extra = _build(lhs, expr, vals, pos)
    if mode == 1 or pos[0] == 1:
        if expr[0] == 2 and pos[0] == 0:  # a TextClause cannot be labelled
            stmt = select(t.c.id, whole).select_from(t).order_by(t.c.id)
        else:
            stmt = select(t.c.id, whole.label("r")).order_by(t.c.id)
    else:
        stmt = select(t.c.id, t.c.id).where(whole).order_by(t.c.id)
    log = engine._verif_log
    del log[:]
    with engine.connect() as conn:
        if not cached:
            conn = conn.execution_options(compiled_cache=None)
        try:
            got = dict((r[0], r[1]) for r in conn.execute(stmt, extra).all())
            truths = _truths(got, pos, mode)
        except exc.OperationalError:
            truths = [9]
    sql, params = log[-1]
    if mode == 1 or pos[0] == 1:
        m = re.match(r"SELECT t\.id, (.*?)(?: AS r)? \nFROM t ORDER BY t\.id$", sql, re.S)
    else:
        m = re.match(r"SELECT t\.id, t\.id AS id__1 \nFROM t \nWHERE (.*) ORDER BY t\.id$", sql, re.S)
    if not m:
        raise ValueError("unexpected statement shape %r" % sql)
    region = _region(m.group(1), pos)
    pname = "q" if expr[0] == 2 else None
    return [0, tokenize(region, pname), _args_tree(tuple(params), pname), truths]


def _ids_raw(sql_expr, args):
    import sqlite3

    q = re.sub(r"%\((\w+)\)s", r":\1", sql_expr).replace("%s", "?")
    try:
        return [r[0] for r in _S["raw"].execute("SELECT t.id FROM t WHERE %s ORDER BY t.id" % q, args)]
    except (sqlite3.OperationalError, sqlite3.ProgrammingError):
        return [9]


def _impl_extra(c):
    from sqlalchemy import Column, Integer, MetaData, String, Table, and_, bindparam, exc, func, or_, select
    from sqlalchemy.types import TypeDecorator

    fam = c["in"][0]
    t = _S["t"]
    out = []
    if fam == 8:
        _, conn_, negq, seq = c["in"]
        p = bindparam("p", expanding=True)
        q = bindparam("q", expanding=True, literal_execute=True)
        right = t.c.y.not_in(q) if negq else t.c.y.in_(q)
        stmt = select(t.c.id).where((or_ if conn_ else and_)(t.c.x.in_(p), right)).order_by(t.c.id)
        engine = _new_engine()
        with engine.connect() as conn:
            for pv, qv in seq:
                try:
                    out.append([r[0] for r in conn.execute(stmt, {"p": [dec_sv(v) for v in pv], "q": [dec_sv(v) for v in qv]})])
                except exc.OperationalError:
                    out.append([9])
        engine.dispose()
        return out
    if fam == 7:
        _, order, d, vals = c["in"]
        bp = bindparam("q", expanding=True)
        a, b = t.c.x.in_(bp), t.c.id.not_in(bp)
        e = or_(b, a) if order else or_(a, b)
    else:
        _, d, op, vals = c["in"]
        if "low" not in _S:
            class Low(TypeDecorator):
                impl = String
                cache_ok = True

                def bind_expression(self, bindvalue):
                    return func.lower(bindvalue)

            _S["low"] = Table("t", MetaData(), Column("id", Integer, primary_key=True), Column("x", Integer), Column("y", Low))
        t2 = _S["low"]
        e = t2.c.y.not_in([dec_sv(v) for v in vals]) if op else t2.c.y.in_([dec_sv(v) for v in vals])
    vals = [dec_sv(v) for v in vals]
    comp = e.compile(dialect=_S["dialects"][d])
    pname = _expanding_name(comp)
    try:
        es = comp.construct_expanded_state({pname: vals})
    except (NotImplementedError, KeyError, IndexError, TypeError, AttributeError) as ex:
        return [[_EXC[type(ex).__name__]]]
    args = es.positional_parameters if comp.positional else es.parameters
    return [_ids_raw(es.statement, args)]


PROC_ROWS = [(1, "a", 1), (2, "b", 2), (3, "c", 3), (4, None, None), (5, "d", 4), (6, "a", 2)]


def _impl_processors(c):
    """typed columns with bind processors, one engine (compiled cache on), a sequence of list lengths"""
    import datetime

    from sqlalchemy import Column, DateTime, Integer, MetaData, String, Table, bindparam, create_engine, exc, select
    from sqlalchemy.types import TypeDecorator

    if "proc" not in _S:
        class Code(TypeDecorator):
            impl = String
            cache_ok = True

            def process_bind_param(self, value, dialect):
                return None if value is None else "k:" + value

            def process_result_value(self, value, dialect):
                return None if value is None else value[2:]

        md = MetaData()
        _S["proc"] = (md, Table("tp", md, Column("id", Integer, primary_key=True), Column("code", Code), Column("ts", DateTime)))
    md, tp = _S["proc"]
    day = lambda n: None if n is None else datetime.datetime(2020, 1, n)
    _, col, neg, shared, seq = c["in"]
    engine = create_engine("sqlite://")
    md.create_all(engine)
    with engine.begin() as conn:
        conn.execute(tp.insert(), [dict(id=i, code=code, ts=day(n)) for i, code, n in PROC_ROWS])
    column = tp.c.code if col == 0 else tp.c.ts
    out = []
    bp = bindparam("q", expanding=True)
    shared_stmt = select(tp.c.id).where(column.not_in(bp) if neg else column.in_(bp)).order_by(tp.c.id)
    with engine.connect() as conn:
        for l in seq:
            vals = [dec_sv(v) for v in l]
            if col == 1:
                vals = [day(v) for v in vals]
            try:
                if shared:      # one statement object, re-executed with a new list
                    out.append([r[0] for r in conn.execute(shared_stmt, {"q": vals})])
                else:           # an equal statement built again: same cache key
                    stmt = select(tp.c.id).where(column.not_in(vals) if neg else column.in_(vals)).order_by(tp.c.id)
                    out.append([r[0] for r in conn.execute(stmt)])
            except (exc.StatementError, TypeError) as e:
                out.append([-1])
    engine.dispose()
    return out


def impl(c):
    if c["in"][0] == 5:
        return _impl_processors(c)
    if c["in"][0] >= 6:
        return _impl_extra(c)
    way, d, lhs, expr, pos, mode, lists, rows = c["in"]
    if rows != 0:
        raise ValueError("unexpected row set")
    lists = [[dec_val(v) for v in l] for l in lists]
    dialect = _S["dialects"][d]
    out = []
    try:
        if d == 0 and way in (0, 2):
            if way == 2:
                engine = _new_engine()
                n0 = len(engine._compiled_cache)
                for vals in lists:
                    out.append(_engine_exec(engine, lhs, expr, vals, pos, mode, True))
                f = _S["facts"]
                f["rebind_engine_cases"] += 1
                f["rebind_engine_single_cache_entry"] += 1 if len(engine._compiled_cache) == n0 + 1 else 0
                engine.dispose()
            else:
                out.append(_engine_exec(_S["engine"], lhs, expr, lists[0], pos, mode, False))
            return out
        if way == 1:
            for vals in lists:
                whole, pred, extra = _build(lhs, expr, vals, pos)
                comp = whole.compile(dialect=dialect, compile_kwargs={"literal_binds": True})
                sql = str(comp)
                out.append([0, tokenize(_region(sql, pos), None), [], _run_sql(sql, (), pos, mode, expr[0])])
            return out
        # direct use of one Compiled object
        whole, pred, extra = _build(lhs, expr, lists[0], pos)
        kw = {"render_postcompile": True} if way == 3 else {}
        comp = whole.compile(dialect=dialect, compile_kwargs=kw)
        pname = _expanding_name(comp)
        for k, vals in enumerate(lists):
            if way == 3 and k == 0:
                sql = comp.string
                prm = comp.params
                args = tuple(prm[n] for n in comp.positiontup) if comp.positional else prm
            else:
                es = comp.construct_expanded_state({pname: vals})
                sql = es.statement
                args = es.positional_parameters if comp.positional else es.parameters
            out.append([0, tokenize(_region(sql, pos), pname), _args_tree(args, pname),
                        _run_sql(sql, args, pos, mode, expr[0])])
        return out
    except (NotImplementedError, KeyError, IndexError, TypeError, AttributeError) as e:
        out.append([_EXC[type(e).__name__]])
        return out


# ------------------------------------------------------------------ the property itself
def _and3(a, b):
    if a == 0 or b == 0:
        return 0
    return 1 if (a == 1 and b == 1) else 2


def _or3(a, b):
    if a == 1 or b == 1:
        return 1
    return 0 if (a == 0 and b == 0) else 2


def _not3(a):
    return {0: 1, 1: 0, 2: 2}[a]


def _eq3(a, b):
    if a is None or b is None:
        return 2
    return 1 if (type(a) is type(b) and a == b) else 0


def _row_eq3(a, b):
    r = 1
    for x, y in zip(a, b):
        r = _and3(r, _eq3(x, y))
    return r


def expected_truths(lhs, expr, pos, mode, vals):
    """Kleene OR of the equalities (negated for NOT IN), in the statement's context, per table row"""
    ctor, op, nneg = expr
    negated = (op + nneg) % 2 == 1
    out = []
    for rid, x, y in ROWS:
        rowv = {0: rid, 1: x, 2: y}
        left = [rowv[lhs[1]]] if lhs[0] == 0 else [rowv[cidx] for cidx in lhs[1]]
        t = 0
        for v in vals:
            t = _or3(t, _row_eq3(left, list(v) if isinstance(v, tuple) else [v]))
        if negated:
            t = _not3(t)
        if pos[0] == 2:
            t = _and3(_not3(_eq3(rid, pos[1])), _and3(t, _not3(_eq3(rid, pos[2]))))
        elif pos[0] == 3:
            t = _or3(_eq3(rid, pos[1]), t)
        out.append(t if mode == 1 else (1 if t == 1 else 0))
    return out


def _in3(x, vs):
    t = 0
    for v in vs:
        t = _or3(t, _eq3(x, v))
    return t


def _oracle_extra(c, obs):
    fam = c["in"][0]
    if fam == 8:
        _, conn_, negq, seq = c["in"]
        for k, (pv, qv) in enumerate(seq):
            pv, qv = [dec_sv(v) for v in pv], [dec_sv(v) for v in qv]
            want = []
            for rid, x, y in ROWS:
                b = _in3(y, qv)
                b = _not3(b) if negq else b
                tt = (_or3 if conn_ else _and3)(_in3(x, pv), b)
                if tt == 1:
                    want.append(rid)
            if obs[k] != want:
                return "execution %d of one cached statement: x IN %r %s y %sIN %r (literal_execute) returned ids %s, expected %s" % (
                    k, pv, "OR" if conn_ else "AND", "NOT " if negq else "", qv, obs[k], want)
        return None
    if fam == 7:
        _, order, d, vals = c["in"]
        vals = [dec_sv(v) for v in vals]
        want = [rid for rid, x, y in ROWS if _or3(_in3(x, vals), _not3(_in3(rid, vals))) == 1]
        desc = "x IN :q OR id NOT IN :q with the shared list %r" % (vals,)
    else:
        _, d, op, vals = c["in"]
        vals = [dec_sv(v) for v in vals]
        low = [v.lower() if isinstance(v, str) else v for v in vals]
        want = [rid for rid, x, y in ROWS if (_not3(_in3(y, low)) if op else _in3(y, low)) == 1]
        desc = "y %sIN %r for a type with bind_expression" % ("NOT " if op else "", vals)
    if len(obs[0]) == 1 and obs[0][0] in (1, 2, 3, 4, 5) and not (obs[0] == want):
        return "%s raised exception code %s" % (desc, obs[0][0])
    if obs[0] == [9] and want != [9]:
        return "%s: the rendered SQL does not execute" % desc
    if obs[0] != want:
        return "%s returned ids %s, expected %s" % (desc, obs[0], want)
    return None


def _oracle_processors(c, obs):
    _, col, neg, shared, seq = c["in"]
    for k, l in enumerate(seq):
        vals = [dec_sv(v) for v in l]
        want = []
        for rid, code, n in PROC_ROWS:
            t = _in3(code if col == 0 else n, vals)
            if (_not3(t) if neg else t) == 1:
                want.append(rid)
        if obs[k] != want:
            return "execution %d of a cached statement (%s column, lengths so far %s): %sIN %r returned ids %s, OR-of-equalities gives %s" % (
                k, "TypeDecorator" if col == 0 else "DateTime", [len(x) for x in seq[: k + 1]], "NOT " if neg else "", vals, obs[k], want)
    return None


def oracle(c, obs):
    if c["in"][0] == 5:
        return _oracle_processors(c, obs)
    if c["in"][0] >= 6:
        return _oracle_extra(c, obs)
    way, d, lhs, expr, pos, mode, lists, rows = c["in"]
    lists = [[dec_val(v) for v in l] for l in lists]
    ways = {0: "bound", 1: "literal_binds", 2: "re-bound on a cached statement", 3: "re-expanded (render_postcompile)"}
    for k, vals in enumerate(lists):
        if k >= len(obs):
            return "execution %d (%s) of %d did not happen: %s" % (k, ways[way], len(lists), obs[-1:])
        o = obs[k]
        if len(o) == 1:
            if o[0] == 1 and expr[0] == 2 and not vals and d == 1:
                # documented: the default dialect has no empty-set expression for a bare expanding parameter
                return None
            return "%s: expanding %r raised exception code %s" % (ways[way], vals, o[0])
        if mode == 0:
            continue
        if o[3] == [9]:
            return "%s: the SQL rendered for the list %r does not execute" % (ways[way], vals)
        want = expected_truths(lhs, expr, pos, mode, vals)
        if o[3] != want:
            return "%s: rows matched %s, OR-of-equalities gives %s for list %r (rows (id,x,y) = %s)" % (
                ways[way], o[3], want, vals, ROWS)
    return None


def match_finding(c, what):
    if c["in"][0] == 7:
        # one BindParameter, two clauses: the empty-set text of the clone compiled last is used for both
        return "C07-shared-expanding-param-expand-op" if (c["in"][2] == 1 and not c["in"][3]) else None
    if c["in"][0] == 6:
        return "C07-empty-in-bind-expression" if not c["in"][3] else None
    if c["in"][0] >= 5:
        return None
    way, d, lhs, expr, pos, mode, lists, rows = c["in"]
    if expr[0] == 1 and lhs[0] == 1:
        if way == 1 and "exception code 5" in what:
            return "C07-literal-nulltype-tuple-attributeerror"
    return None


LEVEL_TEXT = (
    "Machine-checked proof (Coq) over a token-level Gallina transcription of the expanding-IN machinery: for "
    "every dialect style, every list (any length, NULLs, duplicates), scalar and row-value operands of any "
    "arity, the SQL rendered for in_/not_in (and ~ of them) - bound, literal, or re-expanded on a cached / "
    "render_postcompile'd Compiled any number of times - evaluates, under SQL precedence and three-valued "
    "logic, to the Kleene OR of the equalities (or its negation), also inside AND / OR / CASE contexts with "
    "further positional parameters. Tie: pinned source + token-by-token and row-by-row correspondence."
)
LEVEL_NOTE = (
    "Trusted: Coq kernel; the hand transcription (pin + correspondence); the spec-side SQL evaluator "
    "(validated against SQLite on every case); PostgreSQL/MySQL assumed to share SQLite's semantics for "
    "this fragment. No axioms."
)
TECHNIQUE = "Coq proof (induction over lists / parser phrases, state invariant for re-expansion); source pin; exhaustive small-scope correspondence on SQLite"
