#!/usr/bin/env python3
"""Regenerate /verif/MANIFEST.json from the spec modules (claimed) and NOT_APPLICABLE.json."""
import importlib
import json
import os
import sys

V = os.path.dirname(os.path.dirname(os.path.abspath(__file__)))
sys.path.insert(0, V)
props = [json.loads(l) for l in open(os.path.join(V, "properties.jsonl"))]
na = json.load(open(os.path.join(V, "not_applicable.json")))
CLAIMED = set(open(os.path.join(V, "claimed.txt")).read().split())
checks = []
nalist = []
for p in props:
    pid = p["id"]
    path = os.path.join(V, "specs", pid.lower() + ".py")
    claimed = False
    if os.path.exists(path) and pid in CLAIMED:
        spec = importlib.import_module("specs." + pid.lower())
        claimed = True
    if claimed:
        checks.append(
            {
                "property_id": pid,
                "quick_cmd": "./check %s --tier quick" % pid,
                "thorough_cmd": "./check %s --tier thorough" % pid,
                "evidence_file": "/verif/evidence/%s.json" % pid,
                "replay_cmd_template": "./check %s --replay {path}" % pid,
                "engine": "coq-model+correspondence",
                "level_claimed": {
                    "category": spec.LEVEL,
                    "text": spec.LEVEL_TEXT,
                    "design_ref": "DESIGN.md section 5, " + pid,
                },
                "level_note": spec.LEVEL_NOTE,
                "technique": getattr(spec, "TECHNIQUE", "Coq theorems about an executable Gallina model + model/implementation correspondence (vm_compute cases)"),
            }
        )
    else:
        nalist.append({"property_id": pid, "reason": na.get(pid, "check not built yet in this round; the design for it is in DESIGN.md section 5 (not a claim that the technique cannot apply)")})
m = {
    "version": 1,
    "setup_cmd": "cd /verif && /venv/bin/python -m vlib.setup",
    "hooks": {
        "guard": "SQLALCHEMY_VERIF",
        "enable": "no source hooks: instrumentation is external (sys.settrace, event API, fake DBAPI, source-loading of *_cy.py); checks export SQLALCHEMY_VERIF=1 for uniformity",
        "baseline_off_cmd": "cd /repo && /venv/bin/python -m pytest -ra -q -p no:cacheprovider --timeout=900 --continue-on-collection-errors -n 12",
        "source_commits": [],
        "add_only": True,
    },
    "engines": [
        {
            "name": "coq-model+correspondence",
            "path": "/verif/check",
            "serves_properties": [c["property_id"] for c in checks],
            "kind_free_text": "Coq 8.16.1 theorems (coq/props/*.v) about executable Gallina models; per-run regenerated tables/pins (translate/); model-vs-implementation correspondence by generated cases.v + vm_compute; direct property oracle for the search phase",
        }
    ],
    "checks": checks,
    "notes": "See DESIGN.md. known_findings.json lists genuine defects (known / fixed).",
    "not_applicable": nalist,
}
json.dump(m, open(os.path.join(V, "MANIFEST.json"), "w"), indent=1)
print("claimed:", len(checks), "not claimed:", len(nalist))
