#!/bin/sh
# usage: tools/confirm_seed.sh <worktree> <out/k dir> "<pytest files>"  -> prints demo exit codes (clean, patched) and test summary
WT=$1; D=$2; TESTS=$3
cd "$WT" || exit 2
git checkout -q -- . 
PYTHONPATH=$WT/lib /venv/bin/python "$D/demo.py" >/dev/null 2>&1; echo "demo clean exit=$?"
git apply "$D/patch.diff" || { echo "patch does not apply"; exit 2; }
PYTHONPATH=$WT/lib /venv/bin/python "$D/demo.py" >/dev/null 2>&1; echo "demo patched exit=$?"
PYTHONPATH=$WT/lib /venv/bin/python -m pytest -q -p no:cacheprovider $TESTS -n 6 2>&1 | tail -1
git checkout -q -- .
