#!/bin/sh
# run every claimed check (quick tier), J at a time (default 3); summary in /tmp/run_all.log
cd /verif
J=${J:-3}
: > /tmp/run_all.log
cat claimed.txt | xargs -P $J -I{} sh -c './check {} > /tmp/run_all_{}.log 2>&1; echo "{} exit=$? $(grep -c KNOWN-FINDING /tmp/run_all_{}.log) known; $(grep "^RESULT" /tmp/run_all_{}.log)" >> /tmp/run_all.log'
sort -o /tmp/run_all.log /tmp/run_all.log
echo DONE >> /tmp/run_all.log
