#!/bin/sh
# run every claimed check (quick tier) sequentially; summary in /tmp/run_all.log
cd /verif
: > /tmp/run_all.log
for p in $(cat claimed.txt); do
  ./check $p > /tmp/run_all_$p.log 2>&1
  echo "$p exit=$? $(grep -c KNOWN-FINDING /tmp/run_all_$p.log) known; $(grep '^RESULT' /tmp/run_all_$p.log)" >> /tmp/run_all.log
done
echo DONE >> /tmp/run_all.log
