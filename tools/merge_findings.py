#!/usr/bin/env python3
"""Merge findings/*.json fragments into known_findings.json (run by hand, result is committed)."""
import glob, json, os
V = os.path.dirname(os.path.dirname(os.path.abspath(__file__)))
out = []
for p in sorted(glob.glob(os.path.join(V, "findings", "*.json"))):
    out += json.load(open(p))
ids = [e["id"] for e in out]
assert len(ids) == len(set(ids)), "duplicate finding ids"
json.dump({"findings": out}, open(os.path.join(V, "known_findings.json"), "w"), indent=1)
print(len(out), "findings")
