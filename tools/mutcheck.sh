#!/bin/sh
# usage: tools/mutcheck.sh <patch-file|-e 'sed-expr' file> <Cxx> [more check args]
# Runs a check against a scratch copy of /repo/lib with a mutation applied (never touches /repo).
set -e
D=$(mktemp -d /tmp/vm_$$_XXXXXX)
trap 'rm -rf "$D"' EXIT
cp -r /repo/lib "$D/lib"
find "$D/lib" -name '__pycache__' -prune -exec rm -rf {} + 2>/dev/null || true
if [ "$1" = "-e" ]; then
  sed -i -E "$2" "$D/$3"; shift 3
  (cd "$D" && diff -ru /repo/lib lib | head -40) || true
else
  (cd "$D" && patch -p1 -F3 -s < "$1") || { echo "PATCH-DOES-NOT-APPLY $1"; exit 3; }; shift
fi
cd /verif
VERIF_REPO="$D" VERIF_EVIDENCE_DIR="$D/evidence" VERIF_BUILD_DIR="$D/build" ./check "$@" || true
if [ -n "$SHOW" ]; then for r in "$D"/evidence/replay/*.json; do [ -f "$r" ] && python3 -c "import json,sys; r=json.load(open(sys.argv[1])); print('REPLAY violation:', json.dumps(r.get('violation'))[:1500]); print('REPLAY broken:', [(b['phase'], str(b['name'])) for b in r.get('broken', [])][:8])" "$r"; done; fi
