#!/usr/bin/env python3
"""usage: tools/keep_seed.py <Cxx> <seed out dir> <k> <needs> <caught_by> <ran>
copies patch.diff, demo.py, notes.txt into seeded/<Cxx>/<k>/ and writes meta.json"""
import json, os, shutil, sys
pid, src, k, needs, caught, ran = sys.argv[1:7]
dstk = sys.argv[7] if len(sys.argv) > 7 else k
V = os.path.dirname(os.path.dirname(os.path.abspath(__file__)))
dst = os.path.join(V, "seeded", pid, dstk)
os.makedirs(dst, exist_ok=True)
for f in ("patch.diff", "demo.py", "notes.txt"):
    shutil.copy(os.path.join(src, k, f), os.path.join(dst, f))
json.dump({"property": pid, "needs_to_manifest": needs, "check_result": caught, "what_was_run": ran},
          open(os.path.join(dst, "meta.json"), "w"), indent=1)
print("kept", dst)
