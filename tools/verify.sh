#!/bin/sh
# usage: tools/verify.sh <log> C.. C..   (sequential quick checks, one summary line each)
cd /verif; L=$1; shift
for p in "$@"; do ./check $p > /tmp/verify_$p.log 2>&1; echo "$p exit=$? $(grep -c KNOWN-FINDING /tmp/verify_$p.log) known; $(grep '^RESULT' /tmp/verify_$p.log); $(grep -c '^VIOLATION' /tmp/verify_$p.log) viol" >> $L; done; echo DONE >> $L
