#!/usr/bin/env python3
"""usage: tools/seed_pipeline.py <Cxx> "<pytest files>" [check-id]
For the seeder worktree /tmp/seed_<cxx>: for each out/<k>: confirm (demo exits 0 clean / 1 patched, the given
existing tests pass with the patch), run the property's quick check against the patch (tools/mutcheck.sh),
keep confirmed changes under seeded/<Cxx>/<k>/ with meta.json, then save out/ to /root/seedkeep and remove the worktree."""
import json, os, re, shutil, subprocess, sys
V = os.path.dirname(os.path.dirname(os.path.abspath(__file__)))
pid, tests = sys.argv[1], sys.argv[2]
chk = sys.argv[3] if len(sys.argv) > 3 else pid
wt = "/tmp/seed_" + pid.lower()
summary = []
KOFF = int(os.environ.get("KOFF", "0"))  # second wave: out/1..3 are kept as seeded/<Cxx>/4..6
for k in ("1", "2", "3"):
    d = os.path.join(wt, "out", k)
    if not os.path.isfile(os.path.join(d, "patch.diff")):
        summary.append(f"{pid}/{k}: no patch"); continue
    c = subprocess.run([os.path.join(V, "tools/confirm_seed.sh"), wt, d, tests], capture_output=True, text=True).stdout
    ok_demo = "demo clean exit=0" in c and "demo patched exit=1" in c
    last = c.strip().splitlines()[-1] if c.strip() else ""
    ok_tests = " passed" in last and "failed" not in last and "error" not in last.lower()
    m = subprocess.run([os.path.join(V, "tools/mutcheck.sh"), os.path.join(d, "patch.diff"), chk], capture_output=True, text=True, cwd=V)
    out = m.stdout + m.stderr
    viol = [l for l in out.splitlines() if l.startswith("VIOLATION")]
    res = [l for l in out.splitlines() if l.startswith("RESULT")]
    if not res: cls = "ERROR: check did not finish"
    elif not viol: cls = "MISSED (status=pass)"
    elif all(l.rstrip().endswith("no-failing-input-found") for l in viol): cls = "VIOLATION no-failing-input-found"
    else:
        dis = re.search(r"(\d+)/(\d+) cases DISAGREE", out)
        cls = "VIOLATION with a concrete failing input" + (f" ({dis.group(1)} model/impl disagreements)" if dis else "")
    tie = [l for l in out.splitlines() if l.startswith("# tie broken")]
    notes = [l.strip() for l in open(os.path.join(d, "notes.txt")) if l.strip() and not set(l.strip()) <= set("-=")] if os.path.isfile(os.path.join(d, "notes.txt")) else [""]
    line = f"{pid}/{k}: demo_ok={ok_demo} tests_ok={ok_tests} [{last.strip('= ')}] -> {cls} {tie[0] if tie else ''}"
    if ok_demo and ok_tests:
        subprocess.run([sys.executable, os.path.join(V, "tools/keep_seed.py"), pid, os.path.join(wt, "out"), k, notes[0][:300],
                        "first run: " + cls, f"demo clean=0 patched=1; pytest {tests}: {last.strip('= ')}; tools/mutcheck.sh patch {chk}", str(int(k) + KOFF)], capture_output=True)
        if chk != pid:
            f = os.path.join(V, "seeded", pid, str(int(k) + KOFF), "meta.json"); mm = json.load(open(f)); mm["caught_by_check"] = chk; json.dump(mm, open(f, "w"), indent=1)
        line += " KEPT"
    summary.append(line)
    print(line, flush=True)
os.makedirs("/root/seedkeep", exist_ok=True)
dst = "/root/seedkeep/" + pid.lower()
if os.path.isdir(os.path.join(wt, "out")):
    shutil.rmtree(dst, ignore_errors=True); shutil.copytree(os.path.join(wt, "out"), dst)
subprocess.run(["git", "-C", "/repo", "worktree", "remove", "--force", wt])
print("DONE", pid)
